package main

// Seeded generators. Every random choice comes from one PRNG derived from VERIF_SEED.
// Registration sets are generated in two phases (outputs first, then dependencies along a
// random rank) so that they are valid unless a defect is injected on purpose.

import (
	"math/rand"
)

type ident struct{ ty, name, group int }

type outSpec struct {
	id   ident
	life int
	reg  int // index in regs
}

type GenCfg struct {
	NRegs        int
	PInst        float64 // instance values
	PMulti       float64 // multi-return constructors
	PResult      float64 // result objects
	PVoid        float64 // initializers / void constructors
	PName        float64
	PGroup       float64
	PAs          float64
	PInObj       float64
	POptional    float64 // optional dependency on an unregistered identity
	PBuiltin     float64 // dependency on context / scope / provider
	PSkip        float64 // ignored field
	PFault       float64 // scripted constructor failure per invocation slot
	PCloseFail   float64
	PDisposable  float64
	MaxDeps      int
	LifeWeights  [3]int
	PCycle       float64 // inject a back edge
	PConflict    float64 // inject a captive dependency
	PMissing     float64 // inject a missing required dependency
	EagerFaults  bool    // allow faults in singleton constructors (Build then fails)
	PBuildCancel float64 // a singleton constructor cancels the Build context
	NoInitFaults bool
}

func defaultCfg() GenCfg {
	return GenCfg{NRegs: 6, PInst: 0.15, PMulti: 0.1, PResult: 0.1, PVoid: 0.06, PName: 0.25, PGroup: 0.2, PAs: 0.15,
		PInObj: 0.4, POptional: 0.1, PBuiltin: 0.1, PSkip: 0.05, PFault: 0.0, PCloseFail: 0.0, PDisposable: 0.5,
		MaxDeps: 3, LifeWeights: [3]int{4, 3, 3}}
}

type Gen struct {
	rnd     *rand.Rand
	nextRid int
	// forceReplace: multiOutCase produces a singleton multi-output registration with one plain output removed and
	// replaced by a singleton constructor without dependencies (the C06 variant of that family)
	forceReplace bool
	// forceBlock: multiOutCase produces a result object with two members of one group whose registration is refused
	// because a later field's identity is taken (the C06 variant: the same successful registrations build the same way)
	forceBlock bool
}

func newGen(seed int64) *Gen { return &Gen{rnd: rand.New(rand.NewSource(seed)), nextRid: 1} }

func (g *Gen) p(x float64) bool { return g.rnd.Float64() < x }
func (g *Gen) n(k int) int {
	if k <= 0 {
		return 0
	}
	return g.rnd.Intn(k)
}

func (g *Gen) life(w [3]int) int {
	t := g.n(w[0] + w[1] + w[2])
	switch {
	case t < w[0]:
		return Singleton
	case t < w[0]+w[1]:
		return Scoped
	}
	return Transient
}

func (g *Gen) concrete(cfg GenCfg) int {
	if g.p(cfg.PDisposable) {
		return 8 + g.n(8)
	}
	return g.n(8)
}

type regPlan struct {
	reg  *Reg
	outs []outSpec
	rank int
}

// RegSet generates a registration set; returns the registrations in registration order.
func (g *Gen) RegSet(cfg GenCfg) []*Reg {
	n := cfg.NRegs
	plans := make([]*regPlan, 0, n)
	used := map[ident]bool{}   // service identities taken
	groupLife := map[ident]int{} // 1: has scoped member
	fresh := func(id ident) bool { return !used[id] }
	var allOuts []outSpec

	for attempts := 0; len(plans) < n && attempts < n*5; attempts++ {
		i := len(plans)
		rid := g.nextRid
		g.nextRid++
		reg := &Reg{ID: rid, Life: g.life(cfg.LifeWeights)}
		pl := &regPlan{reg: reg}
		x := g.rnd.Float64()
		pickIdent := func(staticTy int, allowGroup bool) (int, int) {
			name, group := 0, 0
			if g.p(cfg.PName) {
				name = 1 + g.n(3)
			} else if allowGroup && g.p(cfg.PGroup) {
				group = 1 + g.n(2)
			}
			return name, group
		}
		switch {
		case x < cfg.PInst:
			ty := g.concrete(cfg)
			if reg.Life != Singleton && ty >= 8 {
				ty -= 8 // disposable instance values only as singletons (owner would not be unique)
			}
			reg.Form = Form{Kind: "inst", Ty: ty}
			reg.Dyn = []int{ty}
			reg.Name, reg.Group = pickIdent(ty, true)
			if g.p(cfg.PAs) {
				reg.As = []int{16 + g.n(4)}
				if g.p(0.4) {
					a := 16 + g.n(4)
					if a != reg.As[0] || g.p(0.1) {
						reg.As = append(reg.As, a) // (rarely the same interface twice: refused as a whole)
					}
				}
			}
		case x < cfg.PInst+cfg.PMulti:
			k := 2 + g.n(2)
			reg.Form = Form{Kind: "ctor", Err: g.p(0.5)}
			seen := map[int]bool{}
			for len(reg.Form.Rets) < k {
				t := g.concrete(cfg)
				if g.p(0.2) {
					t = 16 + g.n(4)
				}
				if seen[t] && !g.p(0.04) {
					continue // (rarely: one type twice - the registration collides with itself and is refused as a whole)
				}
				seen[t] = true
				reg.Form.Rets = append(reg.Form.Rets, t)
				d := t
				if t >= 16 {
					d = g.concrete(cfg)
				}
				reg.Dyn = append(reg.Dyn, d)
			}
			if g.p(0.35) {
				// Name applies to the first return value only, Group to every one
				reg.Name, reg.Group = pickIdent(0, true)
			}
		case x < cfg.PInst+cfg.PMulti+cfg.PResult:
			k := 1 + g.n(3)
			reg.Form = Form{Kind: "result", Err: g.p(0.5)}
			seen := map[ident]bool{}
			for len(reg.Form.Fields) < k {
				t := g.concrete(cfg)
				if g.p(0.2) {
					t = 16 + g.n(4)
				}
				nm, grp := 0, 0
				if g.p(cfg.PName) {
					nm = 1 + g.n(3)
				} else if g.p(cfg.PGroup) {
					grp = 1 + g.n(2) // a group:"…" field: one more member of that group (repeats allowed)
				}
				if nm != 0 && g.p(0.12) {
					grp = 1 + g.n(2) // both tags on one field: the whole registration is refused (F33)
				}
				if grp == 0 {
					if seen[ident{t, nm, 0}] {
						continue
					}
					seen[ident{t, nm, 0}] = true
				}
				reg.Form.Fields = append(reg.Form.Fields, Field{Ty: t, Name: nm, Group: grp})
				d := t
				if t >= 16 {
					d = g.concrete(cfg)
				}
				reg.Dyn = append(reg.Dyn, d)
			}
		case x < cfg.PInst+cfg.PMulti+cfg.PResult+cfg.PVoid:
			reg.Form = Form{Kind: "ctor", Err: g.p(0.5)}
			if g.p(0.8) {
				reg.Life = Scoped
			}
			if g.p(cfg.PName) {
				reg.Name = 1 + g.n(3)
			}
		default:
			t := g.concrete(cfg)
			d := t
			if g.p(0.25) {
				t = 16 + g.n(4)
			}
			reg.Form = Form{Kind: "ctor", Rets: []int{t}, Err: g.p(0.5)}
			reg.Dyn = []int{d}
			reg.Name, reg.Group = pickIdent(t, true)
			if g.p(cfg.PAs) {
				reg.As = []int{16 + g.n(4)}
				if g.p(0.4) {
					a := 16 + g.n(4)
					if a != reg.As[0] || g.p(0.1) {
						reg.As = append(reg.As, a) // (rarely the same interface twice: refused as a whole)
					}
				}
			}
		}
		// the identities this registration provides
		for _, id := range regOutputs(reg) {
			pl.outs = append(pl.outs, outSpec{id: id, life: reg.Life, reg: i})
		}
		// keep the set free of accidental duplicates: retry a few times
		ok := true
		for _, o := range pl.outs {
			if o.id.group == 0 && !fresh(o.id) {
				ok = false
			}
		}
		if !ok {
			g.nextRid--
			continue
		}
		for _, o := range pl.outs {
			if o.id.group == 0 {
				used[o.id] = true
			} else if reg.Life == Scoped {
				groupLife[ident{o.id.ty, 0, o.id.group}] = 1
			}
		}
		for k := range reg.Dyn {
			reg.CFail = append(reg.CFail, reg.Dyn[k] >= 8 && g.p(cfg.PCloseFail))
		}
		plans = append(plans, pl)
		allOuts = append(allOuts, pl.outs...)
	}

	// ranks: dependencies only point to registrations of lower rank
	perm := g.rnd.Perm(len(plans))
	for i, pl := range plans {
		pl.rank = perm[i]
	}
	groupMaxRank := map[ident]int{}
	for _, o := range allOuts {
		if o.id.group != 0 {
			k := ident{o.id.ty, 0, o.id.group}
			if r := plans[o.reg].rank; r > groupMaxRank[k] {
				groupMaxRank[k] = r
			}
		}
	}

	for _, pl := range plans {
		reg := pl.reg
		if reg.Form.Kind == "inst" {
			continue
		}
		nd := g.n(cfg.MaxDeps + 1)
		var params []Param
		needIn := false
		for d := 0; d < nd; d++ {
			switch {
			case g.p(cfg.PBuiltin):
				bd := Dep{Ty: []int{tCtx, tScope, tProv}[g.n(3)]}
				if g.p(0.25) {
					bd.Opt = true // declared optional, injected all the same
					needIn = true
				}
				params = append(params, Param{Dep: bd})
			case g.p(cfg.PSkip):
				params = append(params, Param{Skip: true, Dep: Dep{Ty: g.n(8)}})
				needIn = true
			case g.p(cfg.POptional):
				// optional dependency on an identity nobody provides
				params = append(params, Param{Dep: Dep{Ty: g.n(16), Name: 7 + g.n(2), Opt: true}})
				needIn = true
			default:
				// a registered identity of lower rank that the lifetime rules allow
				var cands []outSpec
				for _, o := range allOuts {
					if plans[o.reg].rank >= pl.rank {
						continue
					}
					if o.id.ty == tVoid && (o.id.name == 0 || o.id.name >= 1000) {
						continue // (a named initializer can be somebody's dependency: `struct{}` under that name)
					}
					if o.id.group != 0 {
						k := ident{o.id.ty, 0, o.id.group}
						if groupMaxRank[k] >= pl.rank {
							continue
						}
						if reg.Life != Scoped && groupLife[k] == 1 {
							continue
						}
					} else if reg.Life != Scoped && o.life == Scoped {
						continue
					}
					cands = append(cands, o)
				}
				if len(cands) == 0 {
					continue
				}
				o := cands[g.n(len(cands))]
				dp := Dep{Ty: o.id.ty, Name: o.id.name, Group: o.id.group}
				if o.id.group == 0 && g.p(0.15) {
					dp.Opt = true
				}
				if dp.Name != 0 || dp.Group != 0 || dp.Opt {
					needIn = true
				}
				params = append(params, Param{Dep: dp})
			}
		}
		// a group field that also carries a name tag: the name is ignored, the field is a group dependency for the
		// build-time validations (cycles, lifetimes) as well as at run time
		for k := range params {
			if params[k].Dep.Group != 0 && params[k].Dep.Name == 0 && g.p(0.2) {
				params[k].Dep.Name = 1 + g.n(3)
			}
		}
		reg.Form.Params = params
		reg.Form.InObj = needIn || (len(params) > 0 && g.p(cfg.PInObj))
		// scripts
		if cfg.PFault > 0 && (reg.Life != Singleton || cfg.EagerFaults) && !(cfg.NoInitFaults && len(regOutputs(reg)) > 0 && regOutputs(reg)[0].ty == tVoid) {
			for s := 0; s < 3; s++ {
				o := OOk
				if g.p(cfg.PFault) {
					o = []int{OErr, OPanic, ONil}[g.n(3)]
					if len(reg.Form.Rets) != 1 || reg.Form.Kind != "ctor" {
						if o == ONil {
							o = OPanic
						}
					}
				}
				reg.Script = append(reg.Script, o)
			}
			if effectiveAllOk(reg) {
				reg.Script = nil
			}
		}
	}

	// a Build cancelled through its context while singletons are being created: a singleton that another
	// singleton depends on cancels it (so that at least one singleton is still to be created afterwards)
	if cfg.PBuildCancel > 0 && g.p(cfg.PBuildCancel) {
		var cands []*regPlan
		for _, pl := range plans {
			if pl.reg.Life != Singleton || pl.reg.Form.Kind == "inst" || len(pl.reg.Script) > 0 {
				continue
			}
			for _, other := range plans {
				if other == pl || other.reg.Life != Singleton || refused(other.reg) {
					continue
				}
				for _, prm := range other.reg.Form.Params {
					for _, o := range pl.outs {
						if !prm.Skip && prm.Dep.Ty == o.id.ty && prm.Dep.Name == o.id.name && prm.Dep.Group == o.id.group && !prm.Dep.Opt {
							cands = append(cands, pl)
						}
					}
				}
			}
		}
		if len(cands) > 0 {
			cands[g.n(len(cands))].reg.Script = []int{OCancel}
		}
	}

	// injected defects
	if len(plans) >= 2 {
		if g.p(cfg.PCycle) {
			a := plans[g.n(len(plans))]
			if a.reg.Form.Kind != "inst" {
				// depend on something of higher or equal rank (possibly itself)
				var cands []outSpec
				for _, o := range allOuts {
					if plans[o.reg].rank >= a.rank && o.id.ty != tVoid {
						cands = append(cands, o)
					}
				}
				if len(cands) > 0 {
					o := cands[g.n(len(cands))]
					dp := Dep{Ty: o.id.ty, Name: o.id.name, Group: o.id.group}
					if o.id.group == 0 && g.p(0.35) {
						dp.Opt = true // a cycle is a cycle also when it closes through an optional field
					}
					a.reg.Form.Params = append(a.reg.Form.Params, Param{Dep: dp})
					if o.id.name != 0 || o.id.group != 0 || dp.Opt {
						a.reg.Form.InObj = true
					}
				}
			}
		}
		if g.p(cfg.PConflict) {
			var scoped []outSpec
			for _, o := range allOuts {
				if o.life == Scoped && o.id.ty != tVoid {
					scoped = append(scoped, o)
				}
			}
			var long []*regPlan
			for _, pl := range plans {
				if pl.reg.Life != Scoped && pl.reg.Form.Kind != "inst" {
					long = append(long, pl)
				}
			}
			if len(scoped) > 0 && len(long) > 0 {
				o := scoped[g.n(len(scoped))]
				a := long[g.n(len(long))]
				dp := Dep{Ty: o.id.ty, Name: o.id.name, Group: o.id.group}
				if o.id.group == 0 && g.p(0.4) {
					dp.Opt = true // declared optional, but registered: still a dependency on a scoped service
				}
				a.reg.Form.Params = append(a.reg.Form.Params, Param{Dep: dp})
				if o.id.name != 0 || o.id.group != 0 || dp.Opt {
					a.reg.Form.InObj = true
				}
			}
		}
		if g.p(cfg.PMissing) {
			a := plans[g.n(len(plans))]
			if a.reg.Form.Kind != "inst" {
				dp := Dep{Ty: g.n(16), Name: 8}
				if g.p(0.5) {
					dp = Dep{Ty: g.n(16)}
					for used[ident{dp.Ty, 0, 0}] {
						dp.Ty = (dp.Ty + 1) % 16
						if dp.Ty == 0 {
							dp.Name = 8
							break
						}
					}
				}
				a.reg.Form.Params = append(a.reg.Form.Params, Param{Dep: dp})
				if dp.Name != 0 {
					a.reg.Form.InObj = true
				}
			}
		}
	}

	regs := make([]*Reg, len(plans))
	for i, pl := range plans {
		regs[i] = pl.reg
	}
	return regs
}

func effectiveAllOk(reg *Reg) bool {
	for i := range reg.Script {
		if effectiveOutcome(reg, i) != OOk || reg.Script[i] == OCancel {
			return false
		}
	}
	return true
}

// refused: the registration is rejected as a whole (a result field with both tags, F33)
func refused(reg *Reg) bool {
	for _, f := range reg.Form.Fields {
		if f.Name != 0 && f.Group != 0 {
			return true
		}
	}
	return false
}

// regOutputs mirrors Model.add_steps: the identities a valid registration provides.
func regOutputs(reg *Reg) []ident {
	f := reg.Form
	switch {
	case f.Kind == "result":
		var out []ident
		for _, fl := range f.Fields {
			out = append(out, ident{fl.Ty, fl.Name, fl.Group})
		}
		return out
	case f.Kind == "ctor" && len(f.Rets) >= 2:
		var out []ident
		for i, t := range f.Rets {
			nm := 0
			if i == 0 {
				nm = reg.Name
			}
			out = append(out, ident{t, nm, reg.Group})
		}
		return out
	}
	ty := f.Ty
	if f.Kind == "ctor" {
		if len(f.Rets) == 0 {
			if reg.Name != 0 {
				return []ident{{tVoid, reg.Name, 0}} // a named initializer is the identity (struct{}, name)
			}
			return []ident{{tVoid, 1000 + reg.ID, 0}} // void key: unique per registration
		}
		ty = f.Rets[0]
	}
	if len(reg.As) > 0 {
		var out []ident
		for _, a := range reg.As {
			out = append(out, ident{a, reg.Name, reg.Group})
		}
		return out
	}
	return []ident{{ty, reg.Name, reg.Group}}
}

// ---------------------------------------------------------------- histories

type HistCfg struct {
	NOps        int
	MaxScopes   int
	PClose      float64
	PCloseProv  float64
	PUnknown    float64 // resolve an identity nobody registered
	PCtx        float64 // create scopes with explicit contexts
	PCancel     float64
	PCtxQueries float64
	Providers   int // provider index to use
}

func defaultHist() HistCfg {
	return HistCfg{NOps: 14, MaxScopes: 5, PClose: 0.12, PCloseProv: 0.03, PUnknown: 0.08}
}

// History generates operations on provider index p built from regs.
func (g *Gen) History(regs []*Reg, p int, cfg HistCfg) []Op {
	var ids []ident
	for _, r := range regs {
		for _, id := range regOutputs(r) {
			if id.ty != tVoid {
				ids = append(ids, id)
			}
		}
	}
	ids = append(ids, ident{tCtx, 0, 0}, ident{tScope, 0, 0}, ident{tProv, 0, 0})
	nScopes := 0
	nCtx := 0
	cancelled := map[int]bool{}
	derived := map[int]bool{}
	var ops []Op
	for i := 0; i < cfg.NOps; i++ {
		x := g.rnd.Float64()
		switch {
		case x < 0.22 && nScopes < cfg.MaxScopes:
			o := Op{Kind: "createscope", P: p, Parent: g.n(nScopes + 1)}
			if g.p(cfg.PCtx) {
				if c := 1 + g.n(nCtx+1); nCtx > 0 && g.p(0.3) && c <= nCtx && !cancelled[c] && !derived[c] {
					o.Ctx = c
				} else {
					nCtx++
					o.Ctx = nCtx
					if o.Parent != 0 && g.p(0.5) {
						// derived from the parent scope's context, with a cancellation of its own; never used for another scope
						o.Derive = true
						derived[nCtx] = true
					}
				}
			}
			ops = append(ops, o)
			nScopes++
		case x < 0.22+cfg.PClose && nScopes > 0:
			ops = append(ops, Op{Kind: "close", P: p, H: 1 + g.n(nScopes)})
		case x < 0.22+cfg.PClose+cfg.PCloseProv:
			ops = append(ops, Op{Kind: "closeprovider", P: p})
		case x < 0.22+cfg.PClose+cfg.PCloseProv+cfg.PCancel && nCtx > 0:
			c := 1 + g.n(nCtx)
			cancelled[c] = true
			ops = append(ops, Op{Kind: "cancel", Ctx: c})
		case x < 0.22+cfg.PClose+cfg.PCloseProv+cfg.PCancel+cfg.PCtxQueries && nScopes > 0:
			h := 1 + g.n(nScopes)
			ops = append(ops, Op{Kind: []string{"ctxvalue", "ctxdone", "fromcontext"}[g.n(3)], P: p, H: h})
		default:
			h := g.n(nScopes + 1)
			if g.p(cfg.PUnknown) {
				ops = append(ops, Op{Kind: "resolve", P: p, H: h, Ty: g.n(20), Name: 9})
				continue
			}
			if len(ids) == 0 {
				continue
			}
			id := ids[g.n(len(ids))]
			if id.group != 0 {
				ops = append(ops, Op{Kind: "resolvegroup", P: p, H: h, Ty: id.ty, Group: id.group})
			} else {
				ops = append(ops, Op{Kind: "resolve", P: p, H: h, Ty: id.ty, Name: id.name})
			}
		}
	}
	return ops
}

func addOps(regs []*Reg) []Op {
	ops := make([]Op, len(regs))
	for i, r := range regs {
		ops[i] = Op{Kind: "add", Reg: r}
	}
	return ops
}
