package main

// Shapes probe (C07, C20): registration shapes that the synthesised types of the harness cannot express, each with a
// model-free expectation read off the property text.
//
//  1. Function-local parameter-object types that share a name (each module function declaring its own
//     `type params struct{ godi.In; ... }`): each constructor is analysed with its own fields - a singleton or transient
//     whose `params` has a scoped field is refused (C07), in either registration order, and a set without such a
//     field builds.
//  2. A field carrying both a `group` and a `name` tag is a group dependency (F28): a keyed registration of the
//     *slice* type under that name, scoped, must not reach a singleton / transient host; the host receives the group.
//  3. `RemoveKeyed[T]("")` as a module entry does what the direct call does: nothing (no registration lives under the
//     empty-string key); the default registration of T stays (C20).

import (
	"errors"
	"fmt"
	"reflect"

	godi "github.com/junioryono/godi/v4"
)

type shDB struct{ n int }
type shReq struct{ n int }
type shSvcA struct{ req *shReq }
type shSvcB struct{}
type shPlugin struct{ n int }
type shHost struct{ plugins []*shPlugin }

func shRegisterPlain(c godi.Collection, life string) error {
	type params struct {
		godi.In
		DB *shDB
	}
	ctor := func(p params) *shSvcB { return &shSvcB{} }
	if life == "singleton" {
		return c.AddSingleton(ctor)
	}
	return c.AddTransient(ctor)
}

func shRegisterCaptive(c godi.Collection, life string) error {
	type params struct {
		godi.In
		DB  *shDB
		Req *shReq
	}
	ctor := func(p params) *shSvcA { return &shSvcA{p.Req} }
	if life == "singleton" {
		return c.AddSingleton(ctor)
	}
	return c.AddTransient(ctor)
}

type shHostIn struct {
	godi.In
	Plugins []*shPlugin `name:"request" group:"plugins"`
}

func shapesProbe() ProbeReport {
	rep := ProbeReport{}
	bad := func(format string, a ...any) { rep.Bad = append(rep.Bad, fmt.Sprintf(format, a...)) }
	guard := func(name string, f func()) {
		rep.Rounds++
		defer func() {
			if v := recover(); v != nil {
				bad("%s: panic: %v", name, v)
			}
		}()
		f()
	}
	// 1. same-named function-local parameter objects
	for _, life := range []string{"singleton", "transient"} {
		for _, order := range []string{"plain-first", "captive-first"} {
			life, order := life, order
			guard("local-types/"+life+"/"+order, func() {
				c := godi.NewCollection()
				_ = c.AddSingleton(func() *shDB { return &shDB{1} })
				_ = c.AddScoped(func() *shReq { return &shReq{1} })
				var e1, e2 error
				if order == "plain-first" {
					e1, e2 = shRegisterPlain(c, life), shRegisterCaptive(c, life)
				} else {
					e1, e2 = shRegisterCaptive(c, life), shRegisterPlain(c, life)
				}
				if e1 != nil || e2 != nil {
					bad("local-types/%s/%s: registration failed: %v / %v", life, order, e1, e2)
					return
				}
				p, err := c.Build()
				if err == nil {
					_ = p.Close()
					bad("local-types/%s/%s: Build accepted a %s whose parameter object has a scoped field", life, order, life)
					return
				}
				var lc *godi.LifetimeConflictError
				if !errors.As(err, &lc) {
					bad("local-types/%s/%s: Build failed with %v, not with a lifetime conflict", life, order, err)
				}
			})
			guard("local-types-valid/"+life+"/"+order, func() {
				c := godi.NewCollection()
				_ = c.AddSingleton(func() *shDB { return &shDB{1} })
				_ = c.AddScoped(func() *shReq { return &shReq{1} })
				// the constructor with the scoped field is itself scoped here: nothing to refuse
				type params struct {
					godi.In
					DB  *shDB
					Req *shReq
				}
				add := func() error { return c.AddScoped(func(p params) *shSvcA { return &shSvcA{p.Req} }) }
				var e1, e2 error
				if order == "plain-first" {
					e1, e2 = shRegisterPlain(c, life), add()
				} else {
					e1, e2 = add(), shRegisterPlain(c, life)
				}
				if e1 != nil || e2 != nil {
					bad("local-types-valid/%s/%s: registration failed: %v / %v", life, order, e1, e2)
					return
				}
				p, err := c.Build()
				if err != nil {
					bad("local-types-valid/%s/%s: a valid set was refused: %v", life, order, err)
					return
				}
				defer p.Close()
				s, _ := p.CreateScope(nil)
				a, err := godi.Resolve[*shSvcA](s)
				if err != nil || a == nil || a.req == nil {
					bad("local-types-valid/%s/%s: the scoped consumer was not wired: %v", life, order, err)
				}
				if _, err := godi.Resolve[*shSvcB](s); err != nil {
					bad("local-types-valid/%s/%s: %v", life, order, err)
				}
			})
		}
	}
	// 1b. one constructor function registered twice, under two names and two lifetimes: each registration is validated
	// with its own lifetime (the constructor's analysis may be shared, the verdict may not)
	for _, order := range []string{"scoped-first", "singleton-first"} {
		order := order
		guard("same-constructor-two-lifetimes/"+order, func() {
			c := godi.NewCollection()
			_ = c.AddScoped(func() *shReq { return &shReq{1} })
			newCache := func(r *shReq) *shSvcA { return &shSvcA{r} }
			var e1, e2 error
			if order == "scoped-first" {
				e1, e2 = c.AddScoped(newCache, godi.Name("request")), c.AddSingleton(newCache, godi.Name("shared"))
			} else {
				e1, e2 = c.AddSingleton(newCache, godi.Name("shared")), c.AddScoped(newCache, godi.Name("request"))
			}
			if e1 != nil || e2 != nil {
				bad("same-constructor-two-lifetimes/%s: registration failed: %v / %v", order, e1, e2)
				return
			}
			p, err := c.Build()
			if err == nil {
				_ = p.Close()
				bad("same-constructor-two-lifetimes/%s: Build accepted a singleton with a scoped dependency", order)
				return
			}
			var lc *godi.LifetimeConflictError
			if !errors.As(err, &lc) {
				bad("same-constructor-two-lifetimes/%s: Build failed with %v, not with a lifetime conflict", order, err)
			}
		})
	}
	// 2. group field with a name tag next to a keyed slice-typed scoped service
	for _, life := range []string{"singleton", "transient"} {
		life := life
		guard("group-field-with-name/"+life, func() {
			c := godi.NewCollection()
			scopedRuns := 0
			_ = c.AddSingleton(func() *shPlugin { return &shPlugin{1} }, godi.Group("plugins"))
			_ = c.AddSingleton(func() *shPlugin { return &shPlugin{2} }, godi.Group("plugins"))
			_ = c.AddScoped(func() []*shPlugin { scopedRuns++; return []*shPlugin{{99}} }, godi.Name("request"))
			host := func(in shHostIn) *shHost { return &shHost{in.Plugins} }
			var err error
			if life == "singleton" {
				err = c.AddSingleton(host)
			} else {
				err = c.AddTransient(host)
			}
			if err != nil {
				bad("group-field-with-name/%s: %v", life, err)
				return
			}
			p, err := c.Build()
			if err != nil {
				bad("group-field-with-name/%s: Build failed: %v", life, err)
				return
			}
			defer p.Close()
			s, _ := p.CreateScope(nil)
			h, err := godi.Resolve[*shHost](s)
			if err != nil {
				bad("group-field-with-name/%s: %v", life, err)
				return
			}
			if scopedRuns != 0 {
				bad("group-field-with-name/%s: the scoped constructor ran for a %s host", life, life)
			}
			if len(h.plugins) != 2 || h.plugins[0].n != 1 || h.plugins[1].n != 2 {
				bad("group-field-with-name/%s: the host did not receive the group (got %d plugins)", life, len(h.plugins))
			}
		})
	}
	// 3. RemoveKeyed with an empty-string key, as a module entry and as a direct call
	guard("remove-keyed-empty-string", func() {
		mk := func() godi.Collection {
			c := godi.NewCollection()
			_ = c.AddSingleton(func() *shDB { return &shDB{1} })
			_ = c.AddSingleton(func() *shDB { return &shDB{2} }, godi.Name("replica"))
			return c
		}
		direct, viaModule := mk(), mk()
		direct.RemoveKeyed(reflectTypeOf[*shDB](), "")
		if err := viaModule.AddModules(godi.NewModule("m", godi.RemoveKeyed[*shDB](""))); err != nil {
			bad("remove-keyed-empty-string: %v", err)
			return
		}
		if direct.Count() != viaModule.Count() {
			bad("remove-keyed-empty-string: %d registrations after the direct call, %d after the module entry", direct.Count(), viaModule.Count())
		}
		e1 := direct.AddSingleton(func() *shDB { return &shDB{3} })
		e2 := viaModule.AddSingleton(func() *shDB { return &shDB{3} })
		if (e1 == nil) != (e2 == nil) {
			bad("remove-keyed-empty-string: registering the default *DB afterwards: direct %v, module %v", e1, e2)
		}
	})
	return rep
}

func reflectTypeOf[T any]() reflect.Type { return reflect.TypeOf((*T)(nil)).Elem() }
