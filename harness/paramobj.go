package main

// Parameter objects a constructor keeps (C04): a constructor may take its In struct by pointer and hold on to it - the
// usual "deps" pattern. The fields it was built with are the instances registered under those types and keys in the scope
// it was built in, and they stay that: no later construction may reach into an object an earlier constructor was given.
// Model-free expectations (the case language records arguments at call time, not afterwards).

import (
	"context"
	"fmt"

	"github.com/junioryono/godi/v4"
)

type poSession struct{ id int }
type poPlugin struct{ n int }
type poDeps struct {
	godi.In
	Session *poSession
	Audit   *poSession  `name:"audit" optional:"true"`
	Plugins []*poPlugin `group:"plugins"`
	note    string
}
type poHandler struct{ deps *poDeps }
type poValDeps struct {
	godi.In
	Session *poSession
	Extra   *poPlugin `name:"extra" optional:"true"`
}
type poValHandler struct {
	session *poSession
	extra   *poPlugin
}

func paramObjectProbe() ProbeReport {
	rep := ProbeReport{}
	bad := func(format string, a ...any) { rep.Bad = append(rep.Bad, fmt.Sprintf(format, a...)) }
	guard := func(name string, f func()) {
		rep.Rounds++
		defer func() {
			if v := recover(); v != nil {
				bad("%s: panic: %v", name, v)
			}
		}()
		f()
	}
	// 1. pointer-form parameter object kept by a scoped service, 200 scopes
	guard("kept-pointer", func() {
		n := 0
		c := godi.NewCollection()
		_ = c.AddScoped(func() *poSession { n++; return &poSession{n} })
		_ = c.AddSingleton(func() *poPlugin { return &poPlugin{1} }, godi.Group("plugins"))
		_ = c.AddSingleton(func() *poPlugin { return &poPlugin{2} }, godi.Group("plugins"))
		if err := c.AddScoped(func(d *poDeps) *poHandler { return &poHandler{d} }); err != nil {
			bad("kept-pointer: registration refused: %v", err)
			return
		}
		p, err := c.Build()
		if err != nil {
			bad("kept-pointer: Build: %v", err)
			return
		}
		defer p.Close()
		type built struct {
			h *poHandler
			s *poSession
		}
		var all []built
		seen := map[*poDeps]int{}
		for i := 0; i < 200; i++ {
			sc, err := p.CreateScope(context.Background())
			if err != nil {
				bad("kept-pointer: CreateScope: %v", err)
				return
			}
			defer sc.Close()
			h, e1 := godi.Resolve[*poHandler](sc)
			s, e2 := godi.Resolve[*poSession](sc)
			if e1 != nil || e2 != nil {
				bad("kept-pointer: resolution failed: %v / %v", e1, e2)
				return
			}
			if h.deps == nil || h.deps.Session != s || h.deps.Audit != nil || len(h.deps.Plugins) != 2 || h.deps.note != "" {
				bad("kept-pointer: scope %d: the parameter object is not the scope's session / unset optional / two plugins", i)
				return
			}
			if j, dup := seen[h.deps]; dup {
				bad("kept-pointer: the constructors of scope %d and scope %d were given the same parameter object", j, i)
				return
			}
			seen[h.deps] = i
			all = append(all, built{h, s})
		}
		for i, b := range all {
			if b.h.deps.Session != b.s || len(b.h.deps.Plugins) != 2 || b.h.deps.Plugins[0].n != 1 || b.h.deps.Plugins[1].n != 2 {
				bad("kept-pointer: the parameter object given to scope %d's constructor was rewritten by a later construction", i)
				return
			}
		}
	})
	// 2. value-form parameter object: an optional field with a registration in one provider and none in the next, same
	// struct type (what one construction was given never shows up in another)
	guard("value-optional", func() {
		for round := 0; round < 50; round++ {
			for _, with := range []bool{true, false} {
				c := godi.NewCollection()
				_ = c.AddScoped(func() *poSession { return &poSession{round} })
				if with {
					_ = c.AddSingleton(func() *poPlugin { return &poPlugin{round} }, godi.Name("extra"))
				}
				_ = c.AddScoped(func(d poValDeps) *poValHandler { return &poValHandler{d.Session, d.Extra} })
				p, err := c.Build()
				if err != nil {
					bad("value-optional: Build: %v", err)
					return
				}
				sc, _ := p.CreateScope(context.Background())
				h, e1 := godi.Resolve[*poValHandler](sc)
				s, e2 := godi.Resolve[*poSession](sc)
				_ = p.Close()
				if e1 != nil || e2 != nil {
					bad("value-optional: resolution failed: %v / %v", e1, e2)
					return
				}
				if h.session != s {
					bad("value-optional: round %d: the field holds another scope's session", round)
					return
				}
				if with && (h.extra == nil || h.extra.n != round) {
					bad("value-optional: round %d: the optional field did not receive the registered service", round)
					return
				}
				if !with && h.extra != nil {
					bad("value-optional: round %d: the optional field has no registration and holds an instance (of an earlier provider)", round)
					return
				}
			}
		}
	})
	// 3. variadic constructors (F40): the last parameter is one dependency of slice type and receives the service
	// registered under that slice type - all of it, as the variadic slice - also next to positional parameters and for
	// `...any`, where the registered slice would also fit as a single element
	guard("variadic", func() {
		c := godi.NewCollection()
		_ = c.AddSingleton(func() []*poPlugin { return []*poPlugin{{1}, {2}} })
		_ = c.AddSingleton(func() []any { return []any{1, 2, 3} })
		_ = c.AddScoped(func() *poSession { return &poSession{7} })
		type plugHost struct{ ps []*poPlugin }
		type anyHost struct {
			s  *poSession
			xs []any
		}
		e1 := c.AddSingleton(func(ps ...*poPlugin) *plugHost { return &plugHost{ps} })
		e2 := c.AddScoped(func(s *poSession, xs ...any) *anyHost { return &anyHost{s, xs} })
		if e1 != nil || e2 != nil {
			bad("variadic: registration refused: %v / %v", e1, e2)
			return
		}
		p, err := c.Build()
		if err != nil {
			bad("variadic: Build: %v", firstLine(err.Error()))
			return
		}
		defer p.Close()
		sc, _ := p.CreateScope(context.Background())
		h, err := godi.Resolve[*plugHost](sc)
		if err != nil || len(h.ps) != 2 || h.ps[0].n != 1 || h.ps[1].n != 2 {
			bad("variadic: func(...*T) with []*T registered: got %+v, %v; want the two registered elements", h, err)
			return
		}
		a, err := godi.Resolve[*anyHost](sc)
		s, _ := godi.Resolve[*poSession](sc)
		if err != nil || a.s != s || len(a.xs) != 3 {
			bad("variadic: func(*S, ...any) with []any registered: got %d variadic arguments (%v), want the 3 registered elements", len(a.xs), err)
		}
	})
	return rep
}
