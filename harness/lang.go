package main

// The case language (mirror of coq/theories/Base.v) with its two printers:
// JSON (replay files) and Gallina terms (what coqc evaluates).

import (
	"fmt"
	"strings"
)

const (
	Singleton = 0
	Scoped    = 1
	Transient = 2
)

const (
	OOk     = 0
	OErr    = 1
	OPanic  = 2
	ONil    = 3
	OCancel = 4
)

type Dep struct {
	Ty    int  `json:"ty"`
	Name  int  `json:"name,omitempty"`
	Group int  `json:"group,omitempty"`
	Opt   bool `json:"opt,omitempty"`
}

type Param struct {
	Skip bool `json:"skip,omitempty"`
	// Emb: the field of the parameter object is an embedded (anonymous) pointer field; invisible to the model,
	// a dependency like any other for the container. Only the shapes of static.go exist (reflect.StructOf cannot
	// embed a type with methods).
	Emb bool `json:"emb,omitempty"`
	Dep Dep  `json:"dep"`
}

type Field struct {
	Ty    int  `json:"ty"`
	Name  int  `json:"name,omitempty"`
	Group int  `json:"group,omitempty"`
	Emb   bool `json:"emb,omitempty"` // embedded field of the result object (static shapes only)
}

type Form struct {
	Kind   string  `json:"kind"` // inst | ctor | result
	Ty     int     `json:"ty,omitempty"`
	InObj  bool    `json:"inobj,omitempty"`
	Params []Param `json:"params,omitempty"`
	Rets   []int   `json:"rets,omitempty"`
	Fields []Field `json:"fields,omitempty"`
	Err    bool    `json:"err,omitempty"`
	// ErrKind: how the trailing error result is declared: 0 `error`, 1 a concrete pointer type implementing
	// error, 2 a struct type implementing error (invisible to the model: an error result is an error result)
	ErrKind int `json:"errkind,omitempty"`
}

type Reg struct {
	ID     int    `json:"id"`
	Life   int    `json:"life"`
	Form   Form   `json:"form"`
	Name   int    `json:"name,omitempty"`
	Group  int    `json:"group,omitempty"`
	As     []int  `json:"as,omitempty"`
	Script []int  `json:"script,omitempty"`
	Dyn    []int  `json:"dyn,omitempty"`
	CFail  []bool `json:"cfail,omitempty"`
	Bad    int    `json:"bad,omitempty"`
	FnKind int    `json:"fnkind,omitempty"` // 0 MakeFunc, 1 closure, 2 method value, 3 generic, 4 top-level (C04 family)
}

type Module struct {
	Kind string   `json:"kind"` // nil | add | remove | removekeyed | module
	Reg  *Reg     `json:"reg,omitempty"`
	Ty   int      `json:"ty,omitempty"`
	Name int      `json:"name,omitempty"`
	Mods []Module `json:"mods,omitempty"`
	// Shared > 0: modules with the same number are built from one and the same Go slice of entries
	Shared int `json:"shared,omitempty"`
}

type Op struct {
	Kind   string   `json:"kind"`
	Reg    *Reg     `json:"reg,omitempty"`
	Mods   []Module `json:"mods,omitempty"`
	Ty     int      `json:"ty,omitempty"`
	Name   int      `json:"name,omitempty"`
	Group  int      `json:"group,omitempty"`
	P      int      `json:"p,omitempty"`
	H      int      `json:"h,omitempty"`
	Parent int      `json:"parent,omitempty"`
	Ctx    int      `json:"ctx,omitempty"`
	Ord    []int    `json:"ord,omitempty"`
	Flat   bool     `json:"flat,omitempty"` // part of a flattened module twin: skipped once an earlier flat op failed
	// NoWait (cancel only): the next operation (a Close of an ancestor or of the provider) is started while the
	// watcher goroutines of the cancelled context are still closing their scopes - an application shutting down
	NoWait bool `json:"nowait,omitempty"`
	// Derive (createscope under a parent scope, with a context id not used before): the explicit context is derived
	// from the parent scope's own context (as in `ctx, cancel := context.WithCancel(parent.Context())`) instead of
	// from context.Background(). Invisible to the model: it is a context of its own either way.
	Derive bool `json:"derive,omitempty"`
}

type Inst struct {
	Void bool `json:"void,omitempty"`
	Rid  int  `json:"rid"`
	Inv  int  `json:"inv"`
	Out  int  `json:"out"`
	Dyn  int  `json:"dyn"`
}

type AVal struct {
	Kind string `json:"kind"` // inst | list | scope | ctx | prov | zero
	Inst *Inst  `json:"inst,omitempty"`
	List []Inst `json:"list,omitempty"`
	H    int    `json:"h,omitempty"`
}

type DescInfo struct {
	Ty, Life, Group int
	Key             string // none | name:<n> | idx:<n> | void
}

type Result struct {
	Kind  string     `json:"kind"` // unit | val | scope | bool | count | descs | err
	Val   *AVal      `json:"val,omitempty"`
	H     int        `json:"h,omitempty"`
	B     bool       `json:"b,omitempty"`
	N     int        `json:"n,omitempty"`
	Descs []DescInfo `json:"descs,omitempty"`
	Class string     `json:"class,omitempty"`
	CArg  int        `json:"carg,omitempty"`
	Mods  []int      `json:"mods,omitempty"`
	Stats [][3]int   `json:"stats,omitempty"`
	Text  string     `json:"text,omitempty"` // error text, for humans only
}

type Event struct {
	Kind    string     `json:"kind"` // ctor | closed
	Rid     int        `json:"rid,omitempty"`
	Inv     int        `json:"inv,omitempty"`
	Args    []AVal     `json:"args,omitempty"`
	Outcome int        `json:"outcome,omitempty"`
	Inst    *Inst      `json:"inst,omitempty"`
	Ok      bool       `json:"ok,omitempty"`
	Owner   int        `json:"owner,omitempty"`
	Path    []PathNode `json:"path,omitempty"`
}

type PathNode struct {
	Ty    int    `json:"ty"`
	Key   string `json:"key"`
	Group int    `json:"group,omitempty"`
}

func (p PathNode) G() string { return fmt.Sprintf("(%d, %s, %d)", p.Ty, gKey(p.Key), p.Group) }

type Step struct {
	Events []Event `json:"events,omitempty"`
	Result Result  `json:"result"`
}

type Case struct {
	Name  string `json:"name"`
	Ops   []Op   `json:"ops"`
	Trace []Step `json:"trace,omitempty"`
	Note  string `json:"note,omitempty"`
	// crash: the runner died on this case (stack overflow, deadlock, fatal error)
	Crash string `json:"crash,omitempty"`
	// SlowClose: every Close body of a pool object yields for a moment (widens the windows in which the
	// container's own watcher goroutines overlap a Close)
	SlowClose bool `json:"slow_close,omitempty"`
}

// ---------------------------------------------------------------- Gallina

func gList[T any](xs []T, f func(T) string) string {
	if len(xs) == 0 {
		return "[]"
	}
	parts := make([]string, len(xs))
	for i, x := range xs {
		parts[i] = f(x)
	}
	return "[" + strings.Join(parts, "; ") + "]"
}

func gNat(n int) string   { return fmt.Sprintf("%d", n) }
func gBool(b bool) string { return map[bool]string{true: "true", false: "false"}[b] }

func gLife(l int) string { return []string{"Singleton", "Scoped", "Transient"}[l] }

func gOutcome(o int) string { return []string{"OOk", "OErr", "OPanic", "ONil", "OCancelBuild"}[o] }

func (d Dep) G() string {
	return fmt.Sprintf("(mkDep %d %d %d %s)", d.Ty, d.Name, d.Group, gBool(d.Opt))
}

func (p Param) G() string {
	if p.Skip {
		return "PSkip"
	}
	return "(PDep " + p.Dep.G() + ")"
}

func (f Field) G() string { return fmt.Sprintf("(mkField %d %d %d)", f.Ty, f.Name, f.Group) }

func (f Form) G() string {
	switch f.Kind {
	case "inst":
		return fmt.Sprintf("(FInst %d)", f.Ty)
	case "ctor":
		return fmt.Sprintf("(FCtor %s %s %s %s)", gBool(f.InObj), gList(f.Params, Param.G), gList(f.Rets, gNat), gBool(f.Err))
	case "result":
		return fmt.Sprintf("(FResult %s %s %s %s)", gBool(f.InObj), gList(f.Params, Param.G), gList(f.Fields, Field.G), gBool(f.Err))
	}
	panic("bad form " + f.Kind)
}

func (r *Reg) G() string {
	return fmt.Sprintf("(mkReg %d %s %s %d %d %s %s %s %s %d)", r.ID, gLife(r.Life), r.Form.G(), r.Name, r.Group,
		gList(r.As, gNat), gList(r.Script, gOutcome), gList(r.Dyn, gNat), gList(r.CFail, gBool), r.Bad)
}

func (m Module) G() string {
	switch m.Kind {
	case "nil":
		return "MNil"
	case "add":
		return "(MAdd " + m.Reg.G() + ")"
	case "remove":
		return fmt.Sprintf("(MRemove %d)", m.Ty)
	case "removekeyed":
		return fmt.Sprintf("(MRemoveKeyed %d %d)", m.Ty, m.Name)
	case "module":
		return fmt.Sprintf("(MModule %d %s)", m.Name, gList(m.Mods, Module.G))
	}
	panic("bad module " + m.Kind)
}

func (o Op) G() string {
	switch o.Kind {
	case "add":
		return "(OAdd " + o.Reg.G() + ")"
	case "remove":
		return fmt.Sprintf("(ORemove %d)", o.Ty)
	case "removekeyed":
		return fmt.Sprintf("(ORemoveKeyed %d %d)", o.Ty, o.Name)
	case "modules":
		return "(OModules " + gList(o.Mods, Module.G) + ")"
	case "contains":
		return fmt.Sprintf("(OContains %d)", o.Ty)
	case "containskeyed":
		return fmt.Sprintf("(OContainsKeyed %d %d)", o.Ty, o.Name)
	case "count":
		return "OCount"
	case "slice":
		return "OSlice"
	case "build":
		return "(OBuild " + gList(o.Ord, gNat) + ")"
	case "createscope":
		return fmt.Sprintf("(OCreateScope %d %d %d)", o.P, o.Parent, o.Ctx)
	case "resolve":
		return fmt.Sprintf("(OResolve %d %d %d %d)", o.P, o.H, o.Ty, o.Name)
	case "resolvegroup":
		return fmt.Sprintf("(OResolveGroup %d %d %d %d)", o.P, o.H, o.Ty, o.Group)
	case "close":
		return fmt.Sprintf("(OClose %d %d %s)", o.P, o.H, gList(o.Ord, gNat))
	case "closeprovider":
		return fmt.Sprintf("(OCloseProvider %d %s)", o.P, gList(o.Ord, gNat))
	case "cancel":
		return fmt.Sprintf("(OCancel %d %s)", o.Ctx, gList(o.Ord, gNat))
	case "ctxvalue":
		return fmt.Sprintf("(OCtxValue %d %d)", o.P, o.H)
	case "ctxdone":
		return fmt.Sprintf("(OCtxDone %d %d)", o.P, o.H)
	case "fromcontext":
		return fmt.Sprintf("(OFromContext %d %d)", o.P, o.H)
	case "stats":
		return fmt.Sprintf("(OStats %d)", o.P)
	}
	panic("bad op " + o.Kind)
}

func (i Inst) G() string {
	if i.Void {
		return "IVoid"
	}
	return fmt.Sprintf("(IObj %d %d %d %d)", i.Rid, i.Inv, i.Out, i.Dyn)
}

func (a AVal) G() string {
	switch a.Kind {
	case "inst":
		return "(AInst " + a.Inst.G() + ")"
	case "list":
		return "(AList " + gList(a.List, Inst.G) + ")"
	case "scope":
		return fmt.Sprintf("(AScope %d)", a.H)
	case "ctx":
		return fmt.Sprintf("(ACtx %d)", a.H)
	case "prov":
		return "AProv"
	case "zero":
		return "AZero"
	}
	panic("bad aval " + a.Kind)
}

func gKey(k string) string {
	switch {
	case k == "none":
		return "KNone"
	case k == "void":
		return "(KVoid 0)"
	case strings.HasPrefix(k, "name:"):
		return "(KName " + k[5:] + ")"
	case strings.HasPrefix(k, "idx:"):
		return "(KIdx " + k[4:] + ")"
	}
	return "(KName 777)"
}

func (d DescInfo) G() string {
	return fmt.Sprintf("(%d, %s, %d, %s)", d.Ty, gKey(d.Key), d.Group, gLife(d.Life))
}

func gClass(c string, arg int) string {
	switch c {
	case "ECtorErr", "ECtorPanic", "EDisposal":
		return fmt.Sprintf("(%s %d)", c, arg)
	}
	return c
}

func (r Result) G() string {
	switch r.Kind {
	case "unit":
		return "RUnit"
	case "val":
		return "(RVal " + r.Val.G() + ")"
	case "scope":
		return fmt.Sprintf("(RScope %d)", r.H)
	case "bool":
		return "(RBool " + gBool(r.B) + ")"
	case "count":
		return fmt.Sprintf("(RCount %d)", r.N)
	case "descs":
		return "(RDescs " + gList(r.Descs, DescInfo.G) + ")"
	case "stats":
		return fmt.Sprintf("(RStats %d %s)", r.N, gList(r.Stats, func(t [3]int) string { return fmt.Sprintf("(%d, %d, %d)", t[0], t[1], t[2]) }))
	case "err":
		return fmt.Sprintf("(RErr %s %s)", gClass(r.Class, r.CArg), gList(r.Mods, gNat))
	}
	panic("bad result " + r.Kind)
}

func (e Event) G() string {
	switch e.Kind {
	case "ctor":
		return fmt.Sprintf("(EvCtor %d %d %s %s)", e.Rid, e.Inv, gList(e.Args, AVal.G), gOutcome(e.Outcome))
	case "closed":
		return fmt.Sprintf("(EvClosed %s %s %d)", e.Inst.G(), gBool(e.Ok), e.Owner)
	case "cycle":
		return "(EvCycle " + gList(e.Path, PathNode.G) + ")"
	case "cancel":
		return "EvCancel"
	}
	panic("bad event " + e.Kind)
}

func (s Step) G() string {
	return "(" + gList(s.Events, Event.G) + ", " + s.Result.G() + ")"
}

func gOps(ops []Op) string    { return gList(ops, Op.G) }
func gTrace(tr []Step) string { return gList(tr, Step.G) }
