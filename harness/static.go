package main

// Function-value kinds that reflect.MakeFunc cannot synthesise (C04): closures from one
// factory, method values on different receivers, generic instantiations, top-level functions.
// All of them are `func() *P0` constructors bound to a registration through a slot table.

import "reflect"

// static0 is the body shared by every static constructor: same protocol as ctorBody.
func (r *Run) static0(reg *Reg) *P0 {
	r.mu.Lock()
	inv := r.invs[reg.ID]
	r.invs[reg.ID]++
	outcome := effectiveOutcome(reg, inv)
	r.events = append(r.events, Event{Kind: "ctor", Rid: reg.ID, Inv: inv, Outcome: outcome})
	r.mu.Unlock()
	if outcome == OPanic {
		panic(PanicVal{Rid: reg.ID})
	}
	r.mu.Lock()
	defer r.mu.Unlock()
	return r.makeOutput(reg, inv, 0, 0).Interface().(*P0)
}

//go:noinline
func closureFactory(r *Run, reg *Reg) func() *P0 {
	return func() *P0 { return r.static0(reg) }
}

type recvT struct {
	r   *Run
	reg *Reg
}

func (x recvT) Make() *P0 { return x.r.static0(x.reg) }

var slotReg [4]*Reg

type (
	S0 struct{}
	S1 struct{}
	S2 struct{}
	S3 struct{}
)

func slotOf[T any]() int {
	var z T
	switch any(z).(type) {
	case S0:
		return 0
	case S1:
		return 1
	case S2:
		return 2
	}
	return 3
}

func genCtor[T any]() *P0 { return theRun.static0(slotReg[slotOf[T]()]) }

func top0() *P0 { return theRun.static0(slotReg[0]) }
func top1() *P0 { return theRun.static0(slotReg[1]) }
func top2() *P0 { return theRun.static0(slotReg[2]) }
func top3() *P0 { return theRun.static0(slotReg[3]) }

// staticFn returns the constructor for a registration of one of the static kinds; the
// registration must have the form `func() *P0`.
func (r *Run) staticFn(reg *Reg) any {
	slot := reg.ID % 4
	switch reg.FnKind {
	case 1:
		return closureFactory(r, reg)
	case 2:
		return recvT{r, reg}.Make
	case 3:
		slotReg[slot] = reg
		return []any{genCtor[S0], genCtor[S1], genCtor[S2], genCtor[S3]}[slot]
	case 4:
		slotReg[slot] = reg
		return []any{top0, top1, top2, top3}[slot]
	}
	ft := reflect.TypeOf(func() *P0 { return nil })
	return reflect.MakeFunc(ft, func(args []reflect.Value) []reflect.Value { return r.ctorBody(reg, ft, args) }).Interface()
}
