package main

// Function-value kinds that reflect.MakeFunc cannot synthesise (C04): closures from one
// factory, method values on different receivers, generic instantiations, top-level functions.
// All of them are `func() *P0` constructors bound to a registration through a slot table.

import (
	"context"
	"reflect"

	godi "github.com/junioryono/godi/v4"
)

// static0 is the body shared by every static constructor: same protocol as ctorBody.
func (r *Run) static0(reg *Reg) *P0 {
	r.mu.Lock()
	inv := r.invs[reg.ID]
	r.invs[reg.ID]++
	outcome := effectiveOutcome(reg, inv)
	r.events = append(r.events, Event{Kind: "ctor", Rid: reg.ID, Inv: inv, Outcome: outcome})
	r.mu.Unlock()
	if outcome == OPanic {
		panic(PanicVal{Rid: reg.ID})
	}
	r.mu.Lock()
	defer r.mu.Unlock()
	return r.makeOutput(reg, inv, 0, 0).Interface().(*P0)
}

//go:noinline
func closureFactory(r *Run, reg *Reg) func() *P0 {
	return func() *P0 { return r.static0(reg) }
}

type recvT struct {
	r   *Run
	reg *Reg
}

func (x recvT) Make() *P0 { return x.r.static0(x.reg) }

var slotReg [4]*Reg

type (
	S0 struct{}
	S1 struct{}
	S2 struct{}
	S3 struct{}
)

func slotOf[T any]() int {
	var z T
	switch any(z).(type) {
	case S0:
		return 0
	case S1:
		return 1
	case S2:
		return 2
	}
	return 3
}

func genCtor[T any]() *P0 { return theRun.static0(slotReg[slotOf[T]()]) }

func top0() *P0 { return theRun.static0(slotReg[0]) }
func top1() *P0 { return theRun.static0(slotReg[1]) }
func top2() *P0 { return theRun.static0(slotReg[2]) }
func top3() *P0 { return theRun.static0(slotReg[3]) }

// staticFn returns the constructor for a registration of one of the static kinds; the
// registration must have the form `func() *P0`.
func (r *Run) staticFn(reg *Reg) any {
	slot := reg.ID % 4
	switch reg.FnKind {
	case 1:
		return closureFactory(r, reg)
	case 2:
		return recvT{r, reg}.Make
	case 3:
		slotReg[slot] = reg
		return []any{genCtor[S0], genCtor[S1], genCtor[S2], genCtor[S3]}[slot]
	case 4:
		slotReg[slot] = reg
		return []any{top0, top1, top2, top3}[slot]
	}
	ft := reflect.TypeOf(func() *P0 { return nil })
	return reflect.MakeFunc(ft, func(args []reflect.Value) []reflect.Value { return r.ctorBody(reg, ft, args) }).Interface()
}

// Parameter and result objects with an embedded (anonymous) service field. The field order after the marker is
// the order of Form.Params / Form.Fields, as in the synthesised structs.
type (
	embIn0 struct {
		godi.In
		*P0
	}
	embIn1 struct {
		godi.In
		*P0
		F1 *P1
	}
	embIn2 struct {
		godi.In
		F0 *P1 `optional:"true"`
		*P0
	}
	embOut0 struct {
		godi.Out
		*P2
		R1 *P3
	}
	// the built-in injectables as embedded fields
	embIn3 struct {
		godi.In
		context.Context
	}
	embIn4 struct {
		godi.In
		godi.Scope
		F1 *P0
	}
	embIn5 struct {
		godi.In
		godi.Provider
	}
	embIn6 struct {
		godi.In
		F0 godi.Scope
		context.Context
	}
)

// embInType returns the static parameter-object type for a parameter list with an embedded field, nil if none fits.
func embInType(ps []Param) reflect.Type {
	plain := func(p Param, ty int, opt bool) bool {
		return !p.Skip && !p.Emb && p.Dep.Ty == ty && p.Dep.Name == 0 && p.Dep.Group == 0 && p.Dep.Opt == opt
	}
	emb := func(p Param, ty int) bool {
		return !p.Skip && p.Emb && p.Dep.Ty == ty && p.Dep.Name == 0 && p.Dep.Group == 0 && !p.Dep.Opt
	}
	switch {
	case len(ps) == 1 && emb(ps[0], 0):
		return reflect.TypeOf(embIn0{})
	case len(ps) == 2 && emb(ps[0], 0) && plain(ps[1], 1, false):
		return reflect.TypeOf(embIn1{})
	case len(ps) == 2 && plain(ps[0], 1, true) && emb(ps[1], 0):
		return reflect.TypeOf(embIn2{})
	case len(ps) == 1 && emb(ps[0], tCtx):
		return reflect.TypeOf(embIn3{})
	case len(ps) == 2 && emb(ps[0], tScope) && plain(ps[1], 0, false):
		return reflect.TypeOf(embIn4{})
	case len(ps) == 1 && emb(ps[0], tProv):
		return reflect.TypeOf(embIn5{})
	case len(ps) == 2 && plain(ps[0], tScope, false) && emb(ps[1], tCtx):
		return reflect.TypeOf(embIn6{})
	}
	return nil
}

func embOutType(fs []Field) reflect.Type {
	if len(fs) == 2 && fs[0].Emb && fs[0].Ty == 2 && fs[0].Name == 0 && fs[0].Group == 0 && !fs[1].Emb && fs[1].Ty == 3 && fs[1].Name == 0 && fs[1].Group == 0 {
		return reflect.TypeOf(embOut0{})
	}
	return nil
}

// The module options Remove[T] and RemoveKeyed[T] are generic: one instantiation per pool type, so that the
// library's own option functions are what a module entry runs (not a closure calling Collection.Remove).
func removeOption(ty int) godi.ModuleOption {
	switch ty {
	case 0:
		return godi.Remove[*P0]()
	case 1:
		return godi.Remove[*P1]()
	case 2:
		return godi.Remove[*P2]()
	case 3:
		return godi.Remove[*P3]()
	case 4:
		return godi.Remove[*P4]()
	case 5:
		return godi.Remove[*P5]()
	case 6:
		return godi.Remove[*P6]()
	case 7:
		return godi.Remove[*P7]()
	case 8:
		return godi.Remove[*D0]()
	case 9:
		return godi.Remove[*D1]()
	case 10:
		return godi.Remove[*D2]()
	case 11:
		return godi.Remove[*D3]()
	case 12:
		return godi.Remove[*D4]()
	case 13:
		return godi.Remove[*D5]()
	case 14:
		return godi.Remove[*D6]()
	case 15:
		return godi.Remove[*D7]()
	case 16:
		return godi.Remove[I0]()
	case 17:
		return godi.Remove[I1]()
	case 18:
		return godi.Remove[I2]()
	case 19:
		return godi.Remove[I3]()
	}
	return nil
}

func removeKeyedOption(ty int, key any) godi.ModuleOption {
	switch ty {
	case 0:
		return godi.RemoveKeyed[*P0](key)
	case 1:
		return godi.RemoveKeyed[*P1](key)
	case 2:
		return godi.RemoveKeyed[*P2](key)
	case 3:
		return godi.RemoveKeyed[*P3](key)
	case 4:
		return godi.RemoveKeyed[*P4](key)
	case 5:
		return godi.RemoveKeyed[*P5](key)
	case 6:
		return godi.RemoveKeyed[*P6](key)
	case 7:
		return godi.RemoveKeyed[*P7](key)
	case 8:
		return godi.RemoveKeyed[*D0](key)
	case 9:
		return godi.RemoveKeyed[*D1](key)
	case 10:
		return godi.RemoveKeyed[*D2](key)
	case 11:
		return godi.RemoveKeyed[*D3](key)
	case 12:
		return godi.RemoveKeyed[*D4](key)
	case 13:
		return godi.RemoveKeyed[*D5](key)
	case 14:
		return godi.RemoveKeyed[*D6](key)
	case 15:
		return godi.RemoveKeyed[*D7](key)
	case 16:
		return godi.RemoveKeyed[I0](key)
	case 17:
		return godi.RemoveKeyed[I1](key)
	case 18:
		return godi.RemoveKeyed[I2](key)
	case 19:
		return godi.RemoveKeyed[I3](key)
	}
	return nil
}
