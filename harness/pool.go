package main

// The fixed pool of Go types that realises the numbered type universe of the
// case language (coq/theories/Base.v):
//   0..7   *P0..*P7   plain pointer types
//   8..15  *D0..*D7   pointer types with Close() error
//   16..19 I0..I3     interfaces implemented by every pool type
//   20     INone      an interface nobody implements
//   50     struct{}   (void constructors)
//   100/101/102       context.Context / godi.Scope / godi.Provider

import (
	"fmt"
	"context"
	"reflect"

	"github.com/junioryono/godi/v4"
)

// Obj is what identifies an instance: who produced it.
type Obj struct {
	Void               bool
	Rid, Inv, Out, Dyn int
}

func (o *Obj) Info() *Obj { return o }

// DObj adds Close() error; the harness records the call and returns the scripted error.
type DObj struct{ Obj }

func (d *DObj) Close() error { return theRun.onClose(&d.Obj) }

type (
	P0 struct{ Obj }
	P1 struct{ Obj }
	P2 struct{ Obj }
	P3 struct{ Obj }
	P4 struct{ Obj }
	P5 struct{ Obj }
	P6 struct{ Obj }
	P7 struct{ Obj }
	D0 struct{ DObj }
	D1 struct{ DObj }
	D2 struct{ DObj }
	D3 struct{ DObj }
	D4 struct{ DObj }
	D5 struct{ DObj }
	D6 struct{ DObj }
	D7 struct{ DObj }
)

type (
	I0    interface{ Info() *Obj }
	I1    interface{ Info() *Obj }
	I2    interface{ Info() *Obj }
	I3    interface{ Info() *Obj }
	INone interface{ Nope() }
)

type informer interface{ Info() *Obj }

var poolElem = []reflect.Type{
	reflect.TypeOf(P0{}), reflect.TypeOf(P1{}), reflect.TypeOf(P2{}), reflect.TypeOf(P3{}),
	reflect.TypeOf(P4{}), reflect.TypeOf(P5{}), reflect.TypeOf(P6{}), reflect.TypeOf(P7{}),
	reflect.TypeOf(D0{}), reflect.TypeOf(D1{}), reflect.TypeOf(D2{}), reflect.TypeOf(D3{}),
	reflect.TypeOf(D4{}), reflect.TypeOf(D5{}), reflect.TypeOf(D6{}), reflect.TypeOf(D7{}),
}

var ifaceTypes = []reflect.Type{
	reflect.TypeOf((*I0)(nil)).Elem(), reflect.TypeOf((*I1)(nil)).Elem(),
	reflect.TypeOf((*I2)(nil)).Elem(), reflect.TypeOf((*I3)(nil)).Elem(),
	reflect.TypeOf((*INone)(nil)).Elem(),
}

// asPointers are the values godi.As-style options are made from (pointer to interface).
var asPointers = []any{new(I0), new(I1), new(I2), new(I3), new(INone)}

var (
	ctxType   = reflect.TypeOf((*context.Context)(nil)).Elem()
	scopeType = reflect.TypeOf((*godi.Scope)(nil)).Elem()
	provType  = reflect.TypeOf((*godi.Provider)(nil)).Elem()
	errType   = reflect.TypeOf((*error)(nil)).Elem()
	ptrErrTy  = reflect.TypeOf((*PtrErr)(nil))
	valErrTy  = reflect.TypeOf(ValErr{})
	voidType  = reflect.TypeOf(struct{}{})
)

const (
	tVoid  = 50
	tCtx   = 100
	tScope = 101
	tProv  = 102
	tNil   = 999
	tNilOut = 997 // as Dyn[k] of a multi-output registration: the constructor leaves output k nil
)

// goType maps a type number to its reflect.Type (nil for tNil).
func goType(t int) reflect.Type {
	switch {
	case t >= 0 && t < 16:
		return reflect.PointerTo(poolElem[t])
	case t >= 16 && t <= 20:
		return ifaceTypes[t-16]
	case t == tVoid:
		return voidType
	case t == tCtx:
		return ctxType
	case t == tScope:
		return scopeType
	case t == tProv:
		return provType
	}
	return nil
}

func typeNum(t reflect.Type) int {
	for i := 0; i < 16; i++ {
		if t == reflect.PointerTo(poolElem[i]) {
			return i
		}
	}
	for i, it := range ifaceTypes {
		if t == it {
			return 16 + i
		}
	}
	switch t {
	case voidType:
		return tVoid
	case ctxType:
		return tCtx
	case scopeType:
		return tScope
	case provType:
		return tProv
	}
	return -1
}

// newObj makes a pool object of dynamic type dyn carrying the given identity.
func newObj(dyn int, o Obj) reflect.Value {
	o.Dyn = dyn
	v := reflect.New(poolElem[dyn])
	f := v.Elem().Field(0)
	if dyn >= 8 {
		f = f.Field(0)
	}
	f.Set(reflect.ValueOf(o))
	return v
}

// PtrErr and ValErr are error results declared with a concrete type instead of `error`.
type PtrErr struct{ Rid int }

func (e *PtrErr) Error() string { return fmt.Sprintf("scripted constructor error (pointer type) of registration %d", e.Rid) }

type ValErr struct{ Rid int }

func (e ValErr) Error() string { return fmt.Sprintf("scripted constructor error (struct type) of registration %d", e.Rid) }
