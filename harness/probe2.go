package main

// Further probe rounds with model-free oracles (see probe.go): situations the case language has no operation for -
// closing the root scope itself (C11), a build context that ends while a constructor is running (C10, C11, C15),
// the context a singleton is given when Build is cancellable (C18), disposables that are not pointers (C10, C15).

import (
	"context"
	"fmt"
	"sync"
	"sync/atomic"
	"time"

	"github.com/junioryono/godi/v4"
)

// ---------------------------------------------------------------- C11: the root scope is a scope

// rootScopeRound: the provider's root scope, obtained through the built-in Scope service, has a child and a
// grandchild; each owns a disposable. Closing the ROOT SCOPE (not the provider): "all descendant scopes are completely
// disposed before their parent disposes its own instances" - Close calls: grandchild's, child's, root's.
func rootScopeRound() (msg string) {
	defer func() {
		if v := recover(); v != nil {
			msg = fmt.Sprintf("panic: %v", v)
		}
	}()
	lg := &oLog{ch: make(chan string, 64)}
	n := 0
	c := godi.NewCollection()
	if err := c.AddScoped(func() *oDep { n++; return &oDep{&oRes{name: fmt.Sprintf("conn%d", n), log: lg}} }); err != nil {
		return err.Error()
	}
	p, err := c.Build()
	if err != nil {
		return err.Error()
	}
	defer p.Close()
	root, err := godi.Resolve[godi.Scope](p)
	if err != nil {
		return "Resolve[Scope](provider): " + err.Error()
	}
	if _, err := godi.Resolve[*oDep](root); err != nil {
		return err.Error()
	}
	child, err := root.CreateScope(context.Background())
	if err != nil {
		return err.Error()
	}
	if _, err := godi.Resolve[*oDep](child); err != nil {
		return err.Error()
	}
	grand, err := child.CreateScope(context.Background())
	if err != nil {
		return err.Error()
	}
	if _, err := godi.Resolve[*oDep](grand); err != nil {
		return err.Error()
	}
	if err := root.Close(); err != nil {
		return "root scope Close: " + err.Error()
	}
	var evs []string
	for len(lg.ch) > 0 {
		evs = append(evs, <-lg.ch)
	}
	if got, want := fmt.Sprint(evs), "[begin conn3 end conn3 begin conn2 end conn2 begin conn1 end conn1]"; got != want {
		return fmt.Sprintf("closing the root scope with a child and a grandchild open: Close calls %v, want %v", got, want)
	}
	_ = p.Close()
	if len(lg.ch) > 0 {
		return "provider.Close closed an instance again after its scope had closed it"
	}
	return ""
}

// ---------------------------------------------------------------- C10, C11, C15: the build context ends inside a constructor

type bRes struct {
	name   string
	mu     *sync.Mutex
	log    *[]string
	closed int32
}

func (r *bRes) Close() error {
	atomic.AddInt32(&r.closed, 1)
	r.mu.Lock()
	*r.log = append(*r.log, "close "+r.name)
	r.mu.Unlock()
	return nil
}

type bPool struct{ *bRes }
type bRepo struct {
	*bRes
	pool *bPool
}
type bSvc struct {
	*bRes
	repo *bRepo
}

// buildDeadlineRound: singletons pool <- repo <- (svc); repo's constructor takes 150 ms, the build context ends after
// 40 ms (BuildTimeout, or a context cancelled by the caller). Whatever Build answers, once it has answered (and the
// provider, if there is one, has been closed): every instance that was created is closed exactly once, a dependency
// after the instance that received it, and nothing is created or closed behind the caller's back later on.
func buildDeadlineRound(how string, slowLast bool) (msg string) {
	defer func() {
		if v := recover(); v != nil {
			msg = fmt.Sprintf("panic: %v", v)
		}
	}()
	var mu sync.Mutex
	var log []string
	var all []*bRes
	mk := func(name string) *bRes {
		r := &bRes{name: name, mu: &mu, log: &log}
		mu.Lock()
		log = append(log, "create "+name)
		all = append(all, r)
		mu.Unlock()
		return r
	}
	c := godi.NewCollection()
	_ = c.AddSingleton(func() *bPool { return &bPool{mk("pool")} })
	_ = c.AddSingleton(func(p *bPool) *bRepo { time.Sleep(150 * time.Millisecond); return &bRepo{mk("repo"), p} })
	if !slowLast {
		_ = c.AddSingleton(func(r *bRepo) *bSvc { return &bSvc{mk("svc"), r} })
	}
	var p godi.Provider
	var err error
	if how == "timeout" {
		p, err = c.BuildWithOptions(&godi.ProviderOptions{BuildTimeout: 40 * time.Millisecond})
	} else {
		ctx, cancel := context.WithCancel(context.Background())
		go func() { time.Sleep(40 * time.Millisecond); cancel() }()
		p, err = c.BuildWithContext(ctx)
		cancel()
	}
	if err == nil && p == nil {
		return "Build returned neither a provider nor an error"
	}
	if err == nil {
		if cerr := p.Close(); cerr != nil {
			return "Close: " + cerr.Error()
		}
	}
	mu.Lock()
	settled := append([]string(nil), log...)
	mu.Unlock()
	time.Sleep(400 * time.Millisecond)
	mu.Lock()
	defer mu.Unlock()
	if len(log) != len(settled) {
		return fmt.Sprintf("after Build had answered (%v) the container went on behind the caller's back: %v, then %v", err, settled, log[len(settled):])
	}
	pos := map[string]int{}
	for i, e := range log {
		pos[e] = i
	}
	for _, r := range all {
		if n := atomic.LoadInt32(&r.closed); n != 1 {
			return fmt.Sprintf("Build answered %v; %s was created and closed %d times (events %v)", err, r.name, n, log)
		}
	}
	for _, pair := range [][2]string{{"repo", "pool"}, {"svc", "repo"}} {
		cr, okr := pos["close "+pair[0]]
		cd, okd := pos["close "+pair[1]]
		if okr && okd && cd < cr {
			return fmt.Sprintf("%s was closed while %s, which received it, was still open (events %v)", pair[1], pair[0], log)
		}
		if _, created := pos["create "+pair[0]]; created && okd && pos["create "+pair[0]] > cd {
			return fmt.Sprintf("%s was created with %s after %s had been closed (events %v)", pair[0], pair[1], pair[1], log)
		}
	}
	return ""
}

func buildProbe() ProbeReport {
	rep := ProbeReport{}
	for _, how := range []string{"timeout", "cancel"} {
		for _, slowLast := range []bool{true, false} {
			rep.Rounds++
			if msg := buildDeadlineRound(how, slowLast); msg != "" {
				rep.Bad = append(rep.Bad, fmt.Sprintf("build-deadline/%s/slow-last=%v: %s", how, slowLast, msg))
			}
		}
	}
	for _, shape := range []string{"func-adapter", "struct-with-slice", "equal-values", "zero-value"} {
		rep.Rounds++
		if msg := valueDisposableRound(shape); msg != "" {
			rep.Bad = append(rep.Bad, "value-disposable/"+shape+": "+msg)
		}
	}
	return rep
}

// ---------------------------------------------------------------- C10, C15: disposables that are not pointers

type bCloserFunc func() error

func (f bCloserFunc) Close() error { return f() }

type bSliceCloser struct {
	tags   []string
	closed *int32
}

func (s bSliceCloser) Close() error { atomic.AddInt32(s.closed, 1); return nil }

type bLease struct{ closed *int32 }

// a disposable whose instances are small numbers: slot 0 is the zero value of its type and an instance like any other
type bSlot int

var bSlotClosed [2]int32

func (s bSlot) Close() error { atomic.AddInt32(&bSlotClosed[s], 1); return nil }

func (l bLease) Close() error { atomic.AddInt32(l.closed, 1); return nil }

// valueDisposableRound: "every instance created by the container that has a Close() error method is closed exactly
// once" - also when its dynamic type is a func adapter, a struct value that cannot be a map key, or a comparable struct
// value of which a second instance compares equal to the first; and Close does not panic (C15).
func valueDisposableRound(shape string) (msg string) {
	defer func() {
		if v := recover(); v != nil {
			msg = fmt.Sprintf("panic: %v", v)
		}
	}()
	var first, ptr, val int32
	c := godi.NewCollection()
	_ = c.AddSingleton(func() *vB { return &vB{&ptr} })
	want := int32(1)
	var err error
	switch shape {
	case "func-adapter":
		err = c.AddSingleton(func() bCloserFunc { return func() error { atomic.AddInt32(&val, 1); return nil } })
	case "struct-with-slice":
		err = c.AddSingleton(func() bSliceCloser { return bSliceCloser{[]string{"a"}, &val} })
	case "zero-value":
		atomic.StoreInt32(&bSlotClosed[0], 0)
		atomic.StoreInt32(&bSlotClosed[1], 0)
		err = c.AddSingleton(func() bSlot { return 0 }, godi.Name("first"))
		if err == nil {
			err = c.AddSingleton(func() bSlot { return 1 }, godi.Name("second"))
		}
		if err == nil {
			err = c.AddScoped(func() bSlot { return 0 })
		}
	default:
		want = 2
		err = c.AddSingleton(func() bLease { return bLease{&val} }, godi.Name("a"))
		if err == nil {
			err = c.AddSingleton(func() bLease { return bLease{&val} }, godi.Name("b"))
		}
	}
	if err != nil {
		return "registration refused: " + err.Error()
	}
	_ = c.AddSingleton(func(*vB) *vA { return &vA{closed: &first} })
	p, err := c.Build()
	if err != nil {
		return "Build: " + err.Error()
	}
	if shape == "zero-value" {
		sc, err := p.CreateScope(context.Background())
		if err != nil {
			return err.Error()
		}
		if _, err := godi.Resolve[bSlot](sc); err != nil {
			return err.Error()
		}
		if err := sc.Close(); err != nil {
			return err.Error()
		}
		if n := atomic.LoadInt32(&bSlotClosed[0]); n != 1 {
			return fmt.Sprintf("a scoped instance that is the zero value of its type was closed %d times by its scope's Close (want 1)", n)
		}
		if err := p.Close(); err != nil {
			return "Close: " + err.Error()
		}
		if a, b := atomic.LoadInt32(&bSlotClosed[0]), atomic.LoadInt32(&bSlotClosed[1]); a != 2 || b != 1 || ptr != 1 || first != 1 {
			return fmt.Sprintf("after provider.Close: slot 0 (scoped once, singleton once) closed %d times (want 2), slot 1 %d times (want 1)", a, b)
		}
		return ""
	}
	if err := p.Close(); err != nil {
		return "Close: " + err.Error()
	}
	if val != want || ptr != 1 || first != 1 {
		return fmt.Sprintf("after provider.Close: the value-typed instances were closed %d times (want %d), the pointer singletons %d and %d times (want 1 and 1)", val, want, ptr, first)
	}
	return ""
}

// ---------------------------------------------------------------- C18: what a singleton is given when Build can be cancelled

type bCtxIn struct {
	godi.In
	Ctx   context.Context
	Scope godi.Scope
}
type bCtxSvc struct {
	ctx   context.Context
	scope godi.Scope
}
type bCtxSvcIn struct{ in bCtxIn }

// buildContextRound: "singletons, being constructed at Build, receive the provider's own root scope and its context" -
// also when Build runs under a deadline or a context the caller cancels afterwards.
func buildContextRound(how string) (msg string) {
	defer func() {
		if v := recover(); v != nil {
			msg = fmt.Sprintf("panic: %v", v)
		}
	}()
	c := godi.NewCollection()
	if err := c.AddSingleton(func(ctx context.Context, s godi.Scope) *bCtxSvc { return &bCtxSvc{ctx, s} }); err != nil {
		return err.Error()
	}
	if err := c.AddSingleton(func(in bCtxIn) *bCtxSvcIn { return &bCtxSvcIn{in} }); err != nil {
		return err.Error()
	}
	var p godi.Provider
	var err error
	switch how {
	case "timeout":
		p, err = c.BuildWithOptions(&godi.ProviderOptions{BuildTimeout: 2 * time.Second})
	case "cancellable":
		ctx, cancel := context.WithCancel(context.Background())
		p, err = c.BuildWithContext(ctx)
		cancel()
	default:
		p, err = c.Build()
	}
	if err != nil {
		return "Build: " + err.Error()
	}
	defer p.Close()
	svc, err := godi.Resolve[*bCtxSvc](p)
	if err != nil {
		return err.Error()
	}
	svcIn, err := godi.Resolve[*bCtxSvcIn](p)
	if err != nil {
		return err.Error()
	}
	rootCtx, e1 := godi.Resolve[context.Context](p)
	root, e2 := godi.Resolve[godi.Scope](p)
	if e1 != nil || e2 != nil {
		return fmt.Sprintf("built-ins on the provider: %v / %v", e1, e2)
	}
	for _, got := range []struct {
		where string
		ctx   context.Context
		scope godi.Scope
	}{{"parameter", svc.ctx, svc.scope}, {"parameter-object field", svcIn.in.Ctx, svcIn.in.Scope}} {
		if got.scope != root {
			return fmt.Sprintf("the singleton's Scope %s is not the provider's root scope", got.where)
		}
		if got.ctx != rootCtx || got.ctx != root.Context() {
			return fmt.Sprintf("the singleton's context.Context %s is not the root scope's context", got.where)
		}
		if got.ctx.Err() != nil {
			return fmt.Sprintf("the singleton's context.Context %s is done (%v) while the provider is open", got.where, got.ctx.Err())
		}
		if s, err := godi.FromContext(got.ctx); err != nil || s != root {
			return fmt.Sprintf("FromContext on the singleton's context %s does not return the root scope (%v)", got.where, err)
		}
	}
	return ""
}
