#!/bin/sh
# Builds the framework from files on disk only: the Coq development (full .vo build) and the Go harness.
set -e
cd "$(dirname "$0")"
export GOFLAGS=-mod=mod GOPROXY=off
unset GOTOOLCHAIN GOSUMDB
(cd coq && coq_makefile -f _CoqProject -o Makefile >/dev/null && timeout 3000 make -j16 >/dev/null)
python3 - <<'PY'
import os
sums=set()
for p in ["go.sum","http/go.sum","chi/go.sum","gin/go.sum","echo/go.sum","fiber/go.sum"]:
    fp=os.path.join("/repo",p)
    if os.path.exists(fp):
        sums.update(l for l in open(fp).read().split("\n") if l.strip())
open("harness/go.sum","w").write("\n".join(sorted(sums))+"\n")
PY
mkdir -p harness/bin evidence replays work
(cd harness && go build -tags verif -overlay overlay.json -o bin/harness . && go build -race -tags verif -overlay overlay.json -o bin/harness-race .)
echo setup ok
