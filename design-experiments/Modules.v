From Coq Require Import List Arith Bool Lia.
Import ListNotations.

(* C20, parametric in the registry: whatever Add/Remove do, a module tree is the flat list of its
   operations, stops at the first failure, and wraps the cause once per enclosing named module. *)
Section Modules.
  Variables (coll cop cause : Type).
  Variable apply_op : coll -> cop -> coll * option cause.   (* Add*/Remove*/… on the collection *)

  Inductive module :=
  | MNil                                   (* nil entry: ignored *)
  | MOp (o : cop)                          (* godi.AddSingleton(...), godi.Remove[T](), … *)
  | MModule (name : nat) (ms : list module).

  (* custom induction principle for the nested list *)
  Section Ind.
    Variable P : module -> Prop.
    Hypothesis Hnil : P MNil.
    Hypothesis Hop : forall o, P (MOp o).
    Hypothesis Hmod : forall n ms, Forall P ms -> P (MModule n ms).
    Fixpoint module_ind' (m : module) : P m :=
      match m with
      | MNil => Hnil
      | MOp o => Hop o
      | MModule n ms => Hmod n ms ((fix go (l : list module) : Forall P l :=
                                      match l with
                                      | [] => Forall_nil P
                                      | x :: l' => Forall_cons x (module_ind' x) (go l')
                                      end) ms)
      end.
  End Ind.

  (* NewModule(name, builders...) : run builders in order, skip nil, wrap the first error *)
  Fixpoint apply_module (c : coll) (m : module) : coll * option (list nat * cause) :=
    match m with
    | MNil => (c, None)
    | MOp o => match apply_op c o with
               | (c', None) => (c', None)
               | (c', Some e) => (c', Some ([], e))
               end
    | MModule n ms =>
        (fix go (c : coll) (l : list module) : coll * option (list nat * cause) :=
           match l with
           | [] => (c, None)
           | x :: l' => match apply_module c x with
                        | (c', None) => go c' l'
                        | (c', Some (ns, e)) => (c', Some (n :: ns, e))
                        end
           end) c ms
    end.

  (* collection.AddModules(ms...) : same loop, no wrapping at the top *)
  Fixpoint add_modules (c : coll) (ms : list module) : coll * option (list nat * cause) :=
    match ms with
    | [] => (c, None)
    | x :: l' => match apply_module c x with
                 | (c', None) => add_modules c' l'
                 | r => r
                 end
    end.

  (* the flat reading: operations left to right, each tagged with its enclosing module names *)
  Fixpoint flatten (m : module) : list (list nat * cop) :=
    match m with
    | MNil => []
    | MOp o => [([], o)]
    | MModule n ms => map (fun p => (n :: fst p, snd p)) (flat_map flatten ms)
    end.

  Fixpoint run_flat (c : coll) (l : list (list nat * cop)) : coll * option (list nat * cause) :=
    match l with
    | [] => (c, None)
    | (ns, o) :: l' => match apply_op c o with
                       | (c', None) => run_flat c' l'
                       | (c', Some e) => (c', Some (ns, e))
                       end
    end.

  Lemma run_flat_app c l1 l2 :
    run_flat c (l1 ++ l2) = match run_flat c l1 with
                            | (c', None) => run_flat c' l2
                            | r => r
                            end.
  Proof.
    revert c; induction l1 as [|[ns o] l1 IH]; intros c; cbn [app run_flat]; [reflexivity|].
    destruct (apply_op c o) as [c' [e|]]; [reflexivity|apply IH].
  Qed.

  Lemma run_flat_map n c l :
    run_flat c (map (fun p => (n :: fst p, snd p)) l) =
    match run_flat c l with
    | (c', Some (ns, e)) => (c', Some (n :: ns, e))
    | (c', None) => (c', None)
    end.
  Proof.
    revert c; induction l as [|[ns o] l IH]; intros c; cbn [map run_flat fst snd]; [reflexivity|].
    destruct (apply_op c o) as [c' [e|]]; [reflexivity|apply IH].
  Qed.

  Theorem apply_module_flat : forall m c, apply_module c m = run_flat c (flatten m).
  Proof.
    induction m as [| o | n ms IH] using module_ind'; intros c; cbn [apply_module flatten run_flat].
    - reflexivity.
    - destruct (apply_op c o) as [c' [e|]]; reflexivity.
    - rewrite run_flat_map.
      revert c. induction IH as [|x l Hx Hl IHl]; intros c; cbn [flat_map run_flat]; [reflexivity|].
      rewrite run_flat_app, <- Hx.
      destruct (apply_module c x) as [c' [[ns e]|]]; [reflexivity|]. apply IHl.
  Qed.

  Theorem add_modules_flat : forall ms c, add_modules c ms = run_flat c (flat_map flatten ms).
  Proof.
    induction ms as [|x l IH]; intros c; cbn [add_modules flat_map]; [reflexivity|].
    rewrite run_flat_app, <- apply_module_flat.
    destruct (apply_module c x) as [c' [[ns e]|]]; [reflexivity|apply IH].
  Qed.

  (* Reading for C20: direct registration is run_flat with the names forgotten *)
  Fixpoint run_direct (c : coll) (l : list cop) : coll * option cause :=
    match l with
    | [] => (c, None)
    | o :: l' => match apply_op c o with
                 | (c', None) => run_direct c' l'
                 | (c', Some e) => (c', Some e)
                 end
    end.

  Corollary C20_transparent ms c :
    fst (add_modules c ms) = fst (run_direct c (map snd (flat_map flatten ms))) /\
    option_map snd (snd (add_modules c ms)) = snd (run_direct c (map snd (flat_map flatten ms))).
  Proof.
    rewrite add_modules_flat. generalize (flat_map flatten ms) as l. intros l; revert c.
    induction l as [|[ns o] l IH]; intros c; cbn [run_flat run_direct map snd fst]; [split; reflexivity|].
    destruct (apply_op c o) as [c' [e|]]; cbn; [split; reflexivity|apply IH].
  Qed.
End Modules.

Print Assumptions C20_transparent.
Print Assumptions add_modules_flat.
