From Coq Require Import List Arith Bool Lia PeanoNat Permutation.
Require Import PermSolver.
Import ListNotations.

Inductive action := ACheckDisposed | ACtor | ATrack | ACas | ATake | ACloseOne.

(* thread-held ids are global association lists keyed by thread id *)
Record cstate := {
  disposed : bool;
  displist : list nat;              (* scope.disposables *)
  nextid   : nat;
  closed   : list nat;              (* Close() calls in order *)
  inflight : list (nat * nat);      (* (tid, constructed-but-not-yet-tracked id) *)
  todo     : list (nat * nat);      (* (tid, id taken by that closer, in closing order) *)
  progs    : list (nat * list action) }.

Fixpoint get {A} (l : list (nat * A)) (i : nat) : option A :=
  match l with [] => None | (j, a) :: l' => if Nat.eqb j i then Some a else get l' i end.
Fixpoint del1 {A} (l : list (nat * A)) (i : nat) : list (nat * A) :=
  match l with [] => [] | (j, a) :: l' => if Nat.eqb j i then l' else (j, a) :: del1 l' i end.
Definition set_prog (ps : list (nat * list action)) i p := (i, p) :: del1 ps i.

Definition step (s : cstate) (i : nat) : cstate :=
  match get (progs s) i with
  | None | Some [] => s
  | Some (a :: rest) =>
    let mk d l n c f t p := {| disposed := d; displist := l; nextid := n; closed := c;
                               inflight := f; todo := t; progs := set_prog (progs s) i p |} in
    match a with
    | ACheckDisposed =>
        mk (disposed s) (displist s) (nextid s) (closed s) (inflight s) (todo s)
           (if disposed s then [] else rest)
    | ACtor =>
        mk (disposed s) (displist s) (S (nextid s)) (closed s) ((i, nextid s) :: inflight s) (todo s) rest
    | ATrack =>
        match get (inflight s) i with
        | Some x => mk (disposed s) (displist s ++ [x]) (nextid s) (closed s) (del1 (inflight s) i) (todo s) rest
        | None => mk (disposed s) (displist s) (nextid s) (closed s) (inflight s) (todo s) rest
        end
    | ACas =>
        if disposed s then mk true (displist s) (nextid s) (closed s) (inflight s) (todo s) []
        else mk true (displist s) (nextid s) (closed s) (inflight s) (todo s) rest
    | ATake =>
        mk (disposed s) [] (nextid s) (closed s) (inflight s)
           (todo s ++ map (fun x => (i, x)) (rev (displist s))) rest
    | ACloseOne =>
        match get (todo s) i with
        | Some x => mk (disposed s) (displist s) (nextid s) (closed s ++ [x]) (inflight s) (del1 (todo s) i)
                       (ACloseOne :: rest)
        | None => mk (disposed s) (displist s) (nextid s) (closed s) (inflight s) (todo s) rest
        end
    end
  end.

Definition run (s : cstate) (sched : list nat) : cstate := fold_left step sched s.

Definition init (ps : list (list action)) : cstate :=
  {| disposed := false; displist := []; nextid := 0; closed := []; inflight := []; todo := [];
     progs := combine (seq 0 (length ps)) ps |}.

(* ---------- invariant: the multiset of all live/closed ids has no duplicates ---------- *)
Definition allids (s : cstate) : list nat :=
  closed s ++ displist s ++ map snd (todo s) ++ map snd (inflight s).
Definition Inv (s : cstate) : Prop := NoDup (allids s) /\ Forall (fun x => x < nextid s) (allids s).

Lemma get_del1_perm {A} (l : list (nat * A)) i x :
  get l i = Some x -> Permutation l ((i, x) :: del1 l i).
Proof.
  induction l as [|[j a] l IH]; cbn; [discriminate|].
  destruct (Nat.eqb_spec j i) as [->|Hne]; intros H.
  - injection H as ->. reflexivity.
  - rewrite (IH H) at 1. apply perm_swap.
Qed.

Lemma Inv_of_perm s s' :
  Permutation (allids s) (allids s') -> nextid s = nextid s' -> Inv s -> Inv s'.
Proof.
  intros HP Hn [Hnd Hlt]; split.
  - eapply Permutation_NoDup; eauto.
  - rewrite <- Hn. eapply Permutation_Forall; eauto.
Qed.

Lemma step_inv s i : Inv s -> Inv (step s i).
Proof.
  intros HI. unfold step.
  destruct (get (progs s) i) as [[|a rest]|]; try exact HI.
  destruct a.
  - (* check *) eapply Inv_of_perm; [| |exact HI]; reflexivity.
  - (* ctor: a fresh id appears in inflight *)
    destruct HI as [Hnd Hlt]. unfold Inv, allids in *; cbn [closed displist todo inflight nextid map snd] in *.
    assert (HP : Permutation (nextid s :: (closed s ++ displist s ++ map snd (todo s) ++ map snd (inflight s)))
                             (closed s ++ displist s ++ map snd (todo s) ++ nextid s :: map snd (inflight s)))
      by perm_solver.
    split.
    + eapply Permutation_NoDup; [exact HP|].
      constructor; [|exact Hnd]. intro Hin. rewrite Forall_forall in Hlt. specialize (Hlt _ Hin). lia.
    + eapply Permutation_Forall; [exact HP|].
      constructor; [lia|]. eapply Forall_impl; [|exact Hlt]. cbn; intros; lia.
  - (* track: move inflight -> displist *)
    destruct (get (inflight s) i) as [x|] eqn:Hg.
    + eapply Inv_of_perm; [| |exact HI]; [|reflexivity].
      unfold allids; cbn [closed displist todo inflight].
      pose proof (get_del1_perm _ _ _ Hg) as HP. apply (Permutation_map snd) in HP. cbn [map snd] in HP.
      rewrite HP. perm_solver.
    + eapply Inv_of_perm; [| |exact HI]; reflexivity.
  - (* cas *) destruct (disposed s); (eapply Inv_of_perm; [| |exact HI]; reflexivity).
  - (* take: move whole displist -> todo *)
    eapply Inv_of_perm; [| |exact HI]; [|reflexivity].
    unfold allids; cbn [closed displist todo inflight app].
    rewrite map_app, map_map; cbn [snd]. rewrite map_id.
    rewrite <- (Permutation_rev (displist s)). perm_solver.
  - (* close one: move todo -> closed *)
    destruct (get (todo s) i) as [x|] eqn:Hg.
    + eapply Inv_of_perm; [| |exact HI]; [|reflexivity].
      unfold allids; cbn [closed displist todo inflight].
      pose proof (get_del1_perm _ _ _ Hg) as HP. apply (Permutation_map snd) in HP. cbn [map snd] in HP.
      rewrite HP. perm_solver.
    + eapply Inv_of_perm; [| |exact HI]; reflexivity.
Qed.

Theorem run_inv sched : forall s, Inv s -> Inv (run s sched).
Proof. induction sched as [|i sch IH]; intros s H; cbn; [exact H|]. apply IH, step_inv, H. Qed.

Lemma init_inv ps : Inv (init ps).
Proof. split; cbn; constructor. Qed.

Lemma NoDup_app_l {A} (a b : list A) : NoDup (a ++ b) -> NoDup a.
Proof. induction a as [|x a IH]; cbn; intros H; [constructor|]. inversion H as [|? ? Hn Hd]; subst. constructor; [intro Hi; apply Hn, in_or_app; left; exact Hi|apply IH, Hd]. Qed.

(* For ALL programs (any number of resolver and closer threads, even ill-formed ones) and ALL schedules:
   no instance is ever closed twice. *)
Theorem no_double_close ps sched : NoDup (closed (run (init ps) sched)).
Proof.
  destruct (run_inv sched _ (init_inv ps)) as [Hnd _].
  unfold allids in Hnd. apply NoDup_app_l in Hnd. exact Hnd.
Qed.

(* The leak (F12): a schedule after which every thread has finished, one instance was created,
   and it is in nobody's hands but the dead list: never closed. *)
Definition resolve_prog := [ACheckDisposed; ACtor; ATrack].
Definition close_prog := [ACas; ATake; ACloseOne].
Definition finished (s : cstate) := forallb (fun p => match snd p with [] => true | _ => false end) (progs s).

Theorem no_leak_refuted :
  exists sched, let s := run (init [resolve_prog; close_prog]) sched in
     finished s = true /\ nextid s = 1 /\ closed s = [] /\ displist s = [0].
Proof. exists [0; 0; 1; 1; 1; 0]. vm_compute. repeat split. Qed.

Print Assumptions no_double_close.
Print Assumptions no_leak_refuted.
