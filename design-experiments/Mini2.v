From Coq Require Import List Arith Bool Lia PeanoNat.
Import ListNotations.

(* Same mini container as Mini.v (one scope, scoped + transient), now with the two facts the
   design needs most: termination from a rank, and "a scoped constructor runs at most once". *)
Inductive life := Scoped | Transient.
Record desc := { d_id : nat; d_life : life; d_deps : list nat }.
Definition cfg := list desc.

Fixpoint find_desc (c : cfg) (i : nat) : option desc :=
  match c with
  | [] => None
  | d :: c' => if Nat.eqb (d_id d) i then Some d else find_desc c' i
  end.

Record inst := { i_id : nat; i_desc : nat; i_args : list nat }.
Record state := { next : nat; cache : list (nat * inst); ctors : list nat (* key of every constructor run *) }.
Inductive res := ROk (i : inst) | RErr | ROutOfFuel.

Fixpoint lookup (l : list (nat * inst)) (k : nat) : option inst :=
  match l with [] => None | (k', v) :: l' => if Nat.eqb k' k then Some v else lookup l' k end.

Definition alloc (s : state) (k : nat) (args : list nat) : state * inst :=
  let i := {| i_id := next s; i_desc := k; i_args := args |} in
  ({| next := S (next s); cache := cache s; ctors := k :: ctors s |}, i).
Definition cache_set (s : state) (k : nat) (i : inst) : state :=
  {| next := next s; cache := (k, i) :: cache s; ctors := ctors s |}.

Fixpoint args_loop (rec : state -> nat -> state * res) (s : state) (deps : list nat) (acc : list nat)
  : state * option (list nat) * bool :=
  match deps with
  | [] => (s, Some (rev acc), false)
  | d :: ds => match rec s d with
               | (s', ROk i) => args_loop rec s' ds (i_id i :: acc)
               | (s', RErr) => (s', None, false)
               | (s', ROutOfFuel) => (s', None, true)
               end
  end.

Definition create (rec : state -> nat -> state * res) (d : desc) (k : nat) (s : state) : state * res :=
  match args_loop rec s (d_deps d) [] with
  | (s', Some args, _) =>
      let '(s'', i) := alloc s' k args in
      (match d_life d with Transient => s'' | Scoped => cache_set s'' k i end, ROk i)
  | (s', None, true) => (s', ROutOfFuel)
  | (s', None, false) => (s', RErr)
  end.

Fixpoint resolve (c : cfg) (fuel : nat) (s : state) (k : nat) : state * res :=
  match fuel with
  | 0 => (s, ROutOfFuel)
  | S f =>
      match find_desc c k with
      | None => (s, RErr)
      | Some d =>
          match d_life d with
          | Transient => create (resolve c f) d k s
          | Scoped => match lookup (cache s) k with
                      | Some i => (s, ROk i)
                      | None => create (resolve c f) d k s
                      end
          end
      end
  end.

Section Ranked.
  Variable c : cfg.
  Variable rank : nat -> nat.
  (* what a successful Build provides: the topological position *)
  Hypothesis rank_dec : forall k d dep, find_desc c k = Some d -> In dep (d_deps d) -> rank dep < rank k.

  (* ---------- termination: fuel > rank suffices ---------- *)
  Lemma resolve_fuel : forall fuel s k, rank k < fuel -> snd (resolve c fuel s k) <> ROutOfFuel.
  Proof.
    induction fuel as [|f IH]; intros s k Hr; [lia|]. cbn [resolve].
    destruct (find_desc c k) as [d|] eqn:Hd; [|discriminate].
    assert (Hloop : forall deps s0 acc, (forall dep, In dep deps -> rank dep < f) ->
              snd (args_loop (resolve c f) s0 deps acc) = false).
    { induction deps as [|dep ds IHd]; intros s0 acc Hlt; cbn [args_loop]; [reflexivity|].
      pose proof (IH s0 dep (Hlt dep (or_introl eq_refl))) as Hne.
      destruct (resolve c f s0 dep) as [s1 r]; cbn [snd] in Hne.
      destruct r; [apply IHd; intros; apply Hlt; right; assumption|reflexivity|congruence]. }
    assert (Hcreate : forall s0, snd (create (resolve c f) d k s0) <> ROutOfFuel).
    { intros s0. unfold create.
      specialize (Hloop (d_deps d) s0 []).
      destruct (args_loop (resolve c f) s0 (d_deps d) []) as [[s1 oa] oof]; cbn [snd] in Hloop.
      rewrite Hloop; [|intros dep Hdep; pose proof (rank_dec k d dep Hd Hdep); lia].
      destruct oa; [destruct (d_life d)|]; discriminate. }
    destruct (d_life d); [destruct (lookup (cache s) k); [discriminate|]|]; apply Hcreate.
  Qed.

  (* ---------- frame: resolving k touches only keys of rank <= rank k ---------- *)
  Definition untouched_above (n : nat) (s s' : state) : Prop :=
    forall j, n < rank j -> lookup (cache s') j = lookup (cache s) j /\
                            count_occ Nat.eq_dec (ctors s') j = count_occ Nat.eq_dec (ctors s) j.

  Lemma untouched_refl n s : untouched_above n s s.
  Proof. intros j _; split; reflexivity. Qed.
  Lemma untouched_trans n s1 s2 s3 : untouched_above n s1 s2 -> untouched_above n s2 s3 -> untouched_above n s1 s3.
  Proof. intros A B j Hj. destruct (A j Hj), (B j Hj). split; congruence. Qed.
  Lemma untouched_mono n m s s' : n <= m -> untouched_above n s s' -> untouched_above m s s'.
  Proof. intros Hle A j Hj. apply A. lia. Qed.

  (* ---------- invariant: a scoped key has run its constructor iff it is cached, and then once ---------- *)
  Definition Inv (s : state) : Prop :=
    forall k d, find_desc c k = Some d -> d_life d = Scoped ->
      count_occ Nat.eq_dec (ctors s) k = match lookup (cache s) k with Some _ => 1 | None => 0 end.

  Lemma resolve_spec : forall fuel s k, Inv s ->
      Inv (fst (resolve c fuel s k)) /\ untouched_above (rank k) s (fst (resolve c fuel s k)).
  Proof.
    induction fuel as [|f IH]; intros s k HI; cbn [resolve]; [split; [exact HI|apply untouched_refl]|].
    destruct (find_desc c k) as [d|] eqn:Hd; [|split; [exact HI|apply untouched_refl]].
    (* the argument loop: preserves Inv and leaves everything of rank >= rank k alone *)
    assert (Hloop : forall deps s0 acc, (forall dep, In dep deps -> rank dep < rank k) -> Inv s0 ->
              let s1 := fst (fst (args_loop (resolve c f) s0 deps acc)) in
              Inv s1 /\ forall j, rank k <= rank j ->
                  lookup (cache s1) j = lookup (cache s0) j /\
                  count_occ Nat.eq_dec (ctors s1) j = count_occ Nat.eq_dec (ctors s0) j).
    { induction deps as [|dep ds IHd]; intros s0 acc Hlt HI0; cbn [args_loop].
      - split; [exact HI0|]. intros; split; reflexivity.
      - destruct (IH s0 dep HI0) as [HI1 Hfr].
        destruct (resolve c f s0 dep) as [s1 r]; cbn [fst] in HI1, Hfr.
        assert (Hstep : forall j, rank k <= rank j ->
                   lookup (cache s1) j = lookup (cache s0) j /\
                   count_occ Nat.eq_dec (ctors s1) j = count_occ Nat.eq_dec (ctors s0) j).
        { intros j Hj. apply Hfr. pose proof (Hlt dep (or_introl eq_refl)). lia. }
        destruct r; cbn [fst]; try (split; [exact HI1|exact Hstep]).
        destruct (IHd s1 (i_id i :: acc) (fun x Hx => Hlt x (or_intror Hx)) HI1) as [HI2 Hfr2].
        split; [exact HI2|]. intros j Hj. destruct (Hstep j Hj), (Hfr2 j Hj). split; congruence. }
    assert (Hcreate : forall s0, Inv s0 ->
              (d_life d = Scoped -> lookup (cache s0) k = None) ->
              Inv (fst (create (resolve c f) d k s0)) /\ untouched_above (rank k) s0 (fst (create (resolve c f) d k s0))).
    { intros s0 HI0 Hmiss. unfold create.
      destruct (Hloop (d_deps d) s0 [] (fun dep Hdep => rank_dec k d dep Hd Hdep) HI0) as [HI1 Hfr].
      destruct (args_loop (resolve c f) s0 (d_deps d) []) as [[s1 oa] oof]; cbn [fst] in HI1, Hfr.
      assert (Hunt : untouched_above (rank k) s0 s1) by (intros j Hj; apply Hfr; lia).
      destruct oa as [args|]; [|destruct oof; cbn [fst]; split; assumption].
      cbn [alloc fst].
      destruct (Hfr k (le_n _)) as [Hck Hnk].
      split.
      - (* Inv after alloc (+ cache_set) *)
        intros j dj Hdj Hsc.
        destruct (Nat.eq_dec k j) as [<-|Hne].
        + rewrite Hd in Hdj; injection Hdj as <-. rewrite Hsc. cbn [cache_set cache ctors lookup count_occ].
          rewrite Nat.eqb_refl. destruct (Nat.eq_dec k k); [|congruence].
          rewrite Hnk, (HI0 k d Hd Hsc), (Hmiss Hsc). reflexivity.
        + specialize (HI1 j dj Hdj Hsc).
          destruct (d_life d); cbn [cache_set cache ctors lookup count_occ];
            destruct (Nat.eq_dec k j); try congruence;
            try (assert (Nat.eqb k j = false) as -> by (apply Nat.eqb_neq; assumption)); exact HI1.
      - (* frame *)
        eapply untouched_trans; [exact Hunt|].
        intros j Hj. assert (k <> j) by (intro; subst; lia).
        destruct (d_life d); cbn [cache_set cache ctors lookup count_occ];
          destruct (Nat.eq_dec k j); try congruence;
          try (assert (Nat.eqb k j = false) as -> by (apply Nat.eqb_neq; assumption)); split; reflexivity. }
    destruct (d_life d) eqn:Hl.
    - destruct (lookup (cache s) k) eqn:Hc; [split; [exact HI|apply untouched_refl]|].
      apply Hcreate; auto.
    - apply Hcreate; [exact HI|discriminate].
  Qed.

  (* ---------- over any history: every scoped constructor has run at most once ---------- *)
  Definition run (fuel : nat) (s : state) (h : list nat) : state :=
    fold_left (fun s k => fst (resolve c fuel s k)) h s.

  Lemma run_inv fuel h : forall s, Inv s -> Inv (run fuel s h).
  Proof. induction h as [|k h IH]; intros s Hs; cbn; [exact Hs|]. apply IH, resolve_spec, Hs. Qed.

  Definition s0 := {| next := 0; cache := []; ctors := [] |}.

  Theorem scoped_at_most_once fuel h k d :
    find_desc c k = Some d -> d_life d = Scoped -> count_occ Nat.eq_dec (ctors (run fuel s0 h)) k <= 1.
  Proof.
    intros Hd Hs. assert (HI : Inv s0) by (intros j dj _ _; reflexivity).
    rewrite (run_inv fuel h s0 HI k d Hd Hs). destruct (lookup _ k); lia.
  Qed.
End Ranked.

Print Assumptions scoped_at_most_once.
Print Assumptions resolve_fuel.
