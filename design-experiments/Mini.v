From Coq Require Import List Arith Bool Lia PeanoNat.
Import ListNotations.

(* --- mini universe --- *)
Inductive life := Singleton | Scoped | Transient.
Record desc := { d_id : nat; d_life : life; d_deps : list nat }.
Definition cfg := list desc.

Fixpoint find_desc (c : cfg) (i : nat) : option desc :=
  match c with
  | [] => None
  | d :: c' => if Nat.eqb (d_id d) i then Some d else find_desc c' i
  end.

Record inst := { i_id : nat; i_desc : nat; i_args : list nat }.

Inductive event := ECtor (d : nat) (i : inst).

Record state := { next : nat; cache : list (nat * inst); evs : list event }.

Inductive res := ROk (i : inst) | RErr | ROutOfFuel.

Fixpoint lookup (l : list (nat * inst)) (k : nat) : option inst :=
  match l with
  | [] => None
  | (k', v) :: l' => if Nat.eqb k' k then Some v else lookup l' k
  end.

(* primitives *)
Definition alloc (s : state) (d : nat) (args : list nat) : state * inst :=
  let i := {| i_id := next s; i_desc := d; i_args := args |} in
  ({| next := S (next s); cache := cache s; evs := ECtor d i :: evs s |}, i).
Definition cache_set (s : state) (k : nat) (i : inst) : state :=
  {| next := next s; cache := (k, i) :: cache s; evs := evs s |}.

(* args loop, parameterised by the recursive call *)
Fixpoint args_loop (rec : state -> nat -> state * res) (s : state) (deps : list nat) (acc : list nat)
  : state * option (list nat) * bool (* out of fuel *) :=
  match deps with
  | [] => (s, Some (rev acc), false)
  | d :: ds =>
      match rec s d with
      | (s', ROk i) => args_loop rec s' ds (i_id i :: acc)
      | (s', RErr) => (s', None, false)
      | (s', ROutOfFuel) => (s', None, true)
      end
  end.

Fixpoint resolve (c : cfg) (fuel : nat) (s : state) (k : nat) : state * res :=
  match fuel with
  | 0 => (s, ROutOfFuel)
  | S f =>
      match find_desc c k with
      | None => (s, RErr)
      | Some d =>
          let create (s : state) :=
            match args_loop (resolve c f) s (d_deps d) [] with
            | (s', Some args, _) =>
                let '(s'', i) := alloc s' (d_id d) args in
                (match d_life d with
                 | Transient => s''
                 | _ => cache_set s'' k i
                 end, ROk i)
            | (s', None, true) => (s', ROutOfFuel)
            | (s', None, false) => (s', RErr)
            end in
          match d_life d with
          | Transient => create s
          | _ => match lookup (cache s) k with
                 | Some i => (s, ROk i)
                 | None => create s
                 end
          end
      end
  end.

(* --- generic preservation lemma --- *)
Section Preserve.
  Variable P : state -> Prop.
  Hypothesis P_alloc : forall s d args, P s -> P (fst (alloc s d args)).
  Hypothesis P_cache : forall s d args k, P s ->
      lookup (cache s) k = None ->
      P (cache_set (fst (alloc s d args)) k (snd (alloc s d args))).

  Lemma args_loop_preserves rec :
    (forall s d, P s -> P (fst (rec s d))) ->
    forall deps s acc, P s -> P (fst (fst (args_loop rec s deps acc))).
  Proof.
    intros Hrec deps; induction deps as [|d ds IH]; intros s acc Hs; cbn [args_loop]; [exact Hs|].
    specialize (Hrec s d Hs). destruct (rec s d) as [s' r]; cbn [fst] in Hrec.
    destruct r; cbn [fst]; auto.
  Qed.
End Preserve.

(* monotone frame facts that the cache hypothesis needs: cache only grows during arg resolution.
   To keep the generic lemma honest we thread a second, built-in invariant: lookups that miss
   before the args loop may hit after it (deps could include k itself only if cyclic). So the
   generic lemma takes the weaker primitive: cache_set on any key. *)
Section Preserve2.
  Variable P : state -> Prop.
  Hypothesis P_alloc : forall s d args, P s -> P (fst (alloc s d args)).
  Hypothesis P_cache_any : forall s k i, P s -> In (ECtor (i_desc i) i) (evs s) -> P (cache_set s k i).

  Lemma resolve_preserves c : forall fuel s k, P s -> P (fst (resolve c fuel s k)).
  Proof.
    induction fuel as [|f IH]; intros s k Hs; cbn [resolve]; [exact Hs|].
    destruct (find_desc c k) as [d|]; [|exact Hs].
    assert (Hcreate : forall s0, P s0 ->
      P (fst (match args_loop (resolve c f) s0 (d_deps d) [] with
            | (s', Some args, _) =>
                let '(s'', i) := alloc s' (d_id d) args in
                (match d_life d with Transient => s'' | _ => cache_set s'' k i end, ROk i)
            | (s', None, true) => (s', ROutOfFuel)
            | (s', None, false) => (s', RErr)
            end))).
    { intros s0 Hs0.
      pose proof (args_loop_preserves P (resolve c f) (fun s d => IH s d) (d_deps d) s0 [] Hs0) as Ha.
      destruct (args_loop (resolve c f) s0 (d_deps d) []) as [[s' oargs] oof]; cbn [fst] in Ha.
      destruct oargs as [args|]; [|destruct oof; exact Ha].
      pose proof (P_alloc s' (d_id d) args Ha) as Hal.
      unfold alloc in *; cbn [fst] in Hal.
      destruct (d_life d); cbn [fst]; try exact Hal;
        apply P_cache_any; auto; cbn; left; reflexivity. }
    destruct (d_life d); try (destruct (lookup (cache s) k); [exact Hs|]); apply Hcreate; exact Hs.
  Qed.
End Preserve2.

(* --- instance of the generic lemma: all ids in events are < next, and NoDup --- *)
Definition ev_id (e : event) := match e with ECtor _ i => i_id i end.
Definition InvFresh (s : state) : Prop :=
  NoDup (map ev_id (evs s)) /\ (forall e, In e (evs s) -> ev_id e < next s).

Lemma fresh_alloc s d args : InvFresh s -> InvFresh (fst (alloc s d args)).
Proof.
  intros [Hnd Hlt]; split; cbn.
  - constructor; [|exact Hnd]. intro Hin. apply in_map_iff in Hin as [e [He Hin]].
    specialize (Hlt e Hin). lia.
  - intros e [<-|Hin]; cbn; [lia|]. specialize (Hlt e Hin). lia.
Qed.

Lemma fresh_cache s k i : InvFresh s -> In (ECtor (i_desc i) i) (evs s) -> InvFresh (cache_set s k i).
Proof. intros H _. exact H. Qed.

Theorem resolve_fresh c fuel s k : InvFresh s -> InvFresh (fst (resolve c fuel s k)).
Proof. apply resolve_preserves; [apply fresh_alloc | apply fresh_cache]. Qed.

(* --- run over histories --- *)
Definition run (c : cfg) (fuel : nat) (s : state) (h : list nat) : state :=
  fold_left (fun s k => fst (resolve c fuel s k)) h s.

Theorem run_fresh c fuel h : forall s, InvFresh s -> InvFresh (run c fuel s h).
Proof. induction h as [|k h IH]; intros s Hs; cbn; [exact Hs|]. apply IH, resolve_fresh, Hs. Qed.

Definition s0 := {| next := 0; cache := []; evs := [] |}.
Example fresh0 : InvFresh s0. Proof. split; [constructor|intros e []]. Qed.

Definition c1 : cfg :=
  [ {| d_id := 0; d_life := Scoped; d_deps := [] |};
    {| d_id := 1; d_life := Transient; d_deps := [0] |};
    {| d_id := 2; d_life := Scoped; d_deps := [1; 1; 0] |} ].
Eval vm_compute in evs (run c1 5 s0 [2; 1; 2]).
Print Assumptions run_fresh.
